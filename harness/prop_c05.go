//go:build verif

package otr3

import (
	"bytes"
	"fmt"
)

// C05 — no data message is ever accepted twice.
// Network that records everything, may duplicate and reorder; every recorded
// message that was already delivered is re-delivered to a clone of its receiver
// in every explored state.

type recC05 struct {
	To        int
	Units     [][]byte // the wire units (one, or the fragments of one message)
	Delivered int      // number of units delivered so far (in order); == len(Units): seen completely
	Seen      bool
	Accepted  bool // some delivery of the complete message was accepted (no error, no unreadable/malformed/not-in-private event)
	Kind      string
}

type monC05 struct {
	Net     [2][]int // indices into Recs, in flight towards i (unit granularity handled through Pos)
	Pos     []int    // per record: next unit to deliver
	Recs    []recC05
	Sent    [2][][]byte
	Got     [2][]int // per sent text of the peer: times delivered
	Budget  [2]int
	Dev     int // remaining deviations (reorder / duplicate)
	ReAKE   int
	SMP     int
	Asked   [2]bool
	Spur    int
	Resent  int
	Session int
}

// verifGroupUnits splits the output of one API call into messages (each a list of wire units).
func verifGroupUnits(out [][]byte) [][][]byte {
	var groups [][][]byte
	var cur [][]byte
	for _, m := range out {
		if guessMessageType(m) == msgGuessFragment {
			cur = append(cur, m)
			// last fragment? parse "k,n" from the tail fields
			parts := bytes.Split(m, []byte(","))
			if len(parts) >= 4 {
				k, _ := bytesToUint16(parts[len(parts)-4])
				n, _ := bytesToUint16(parts[len(parts)-3])
				if k == n {
					groups = append(groups, cur)
					cur = nil
				}
			}
			continue
		}
		groups = append(groups, [][]byte{m})
	}
	if cur != nil {
		groups = append(groups, cur)
	}
	return groups
}

func verifReassemble(units [][]byte) []byte {
	if len(units) == 1 && guessMessageType(units[0]) != msgGuessFragment {
		return units[0]
	}
	var b []byte
	for _, u := range units {
		parts := bytes.Split(u, []byte(","))
		if len(parts) >= 4 {
			b = append(b, parts[len(parts)-2]...)
		}
	}
	return b
}

var verifResentPrefix = []byte("[resent] ")

// verifAccepted: the data message delivered with result r was accepted by the receiver.
func verifAccepted(r verifResult) bool {
	if r.Err != "" || r.Panic != "" {
		return false
	}
	ok := r.HasPln
	for _, ev := range r.Events {
		switch ev.Kind {
		case 'M':
			switch MessageEvent(ev.Code) {
			case MessageEventReceivedMessageUnreadable, MessageEventReceivedMessageMalformed, MessageEventReceivedMessageNotInPrivate,
				MessageEventReceivedMessageForOtherInstance, MessageEventReceivedMessageUnrecognized:
				return false
			case MessageEventLogHeartbeatReceived:
				ok = true
			}
		case 'P', 'S', 'K':
			ok = true
		}
	}
	return ok
}

func verifC05Sys(id string, seed int64) *verifSys {
	var v, s, dev, reake, smp int
	var frag uint16
	if _, err := fmt.Sscanf(id, "v%d/f%d/S%d/D%d/R%d/P%d", &v, &frag, &s, &dev, &reake, &smp); err != nil {
		return nil
	}
	sys := &verifSys{Prop: "C05", ID: id, Seed: seed}
	sys.Init = func() *verifWorld {
		w := verifEstablished(seed, v, frag)
		w.Mon = &monC05{Budget: [2]int{s, s}, Dev: dev, ReAKE: reake, SMP: smp}
		return w
	}
	// emit records the output of principal from and puts it on the network
	emit := func(w *verifWorld, from int, out [][]byte) {
		m := w.Mon.(*monC05)
		for _, g := range verifGroupUnits(out) {
			kind := "other"
			if guessMessageType(verifReassemble(g)) == msgGuessData {
				kind = "data"
			}
			m.Recs = append(m.Recs, recC05{To: 1 - from, Units: g, Kind: kind})
			m.Pos = append(m.Pos, 0)
			m.Net[1-from] = append(m.Net[1-from], len(m.Recs)-1)
		}
	}
	sys.Evs = func(w *verifWorld) []verifEv {
		m := w.Mon.(*monC05)
		var evs []verifEv
		for i := 0; i < 2; i++ {
			for j := range m.Net[i] {
				if j == 0 {
					evs = append(evs, verifEv{K: "deliver", I: i})
				} else if m.Dev > 0 && m.Pos[m.Net[i][j]] == 0 && m.Pos[m.Net[i][0]] == 0 {
					evs = append(evs, verifEv{K: "reorder", I: i, J: j})
				}
			}
			if m.Dev > 0 {
				// duplicate: re-deliver any completely delivered data message of this direction
				for k, rec := range m.Recs {
					if rec.To == i && rec.Seen && rec.Kind == "data" {
						evs = append(evs, verifEv{K: "dup", I: i, J: k})
					}
				}
			}
		}
		for i := 0; i < 2; i++ {
			if m.Budget[i] > 0 {
				evs = append(evs, verifEv{K: "send", I: i})
			}
			if m.Asked[i] {
				evs = append(evs, verifEv{K: "smpanswer", I: i})
			}
		}
		if m.SMP > 0 {
			evs = append(evs, verifEv{K: "smpstart", I: 0})
		}
		if m.ReAKE > 0 {
			if m.ReAKE == 2 {
				if len(m.Net[0])+len(m.Net[1]) == 0 {
					evs = append(evs, verifEv{K: "reake2", I: 0}, verifEv{K: "reake2", I: 1})
				}
			} else {
				evs = append(evs, verifEv{K: "reake", I: 0}, verifEv{K: "reake", I: 1})
			}
		}
		return evs
	}
	// account for the result of a Receive by principal i
	onRecv := func(w *verifWorld, i int, r verifResult, what string) []verifFinding {
		m := w.Mon.(*monC05)
		var fs []verifFinding
		if r.Panic != "" {
			fs = append(fs, verifFinding{"C05:panic:" + verifPanicClass(r.Panic), r.Panic})
		}
		if r.HasPln {
			found := false
			if bytes.HasPrefix(r.Plain, verifResentPrefix) {
				// a deliberate retransmission by the sender after an error report (C18's business):
				// a new data message, marked as resent — not a replay
				found = true
				m.Resent++
			}
			for k, t := range m.Sent[1-i] {
				if bytes.Equal(t, r.Plain) {
					found = true
					m.Got[i][k]++
					if m.Got[i][k] > 1 {
						fs = append(fs, verifFinding{"C05:delivered-twice", fmt.Sprintf("%s received %q %d times (%s)", w.P[i].Name, verifTrunc(r.Plain), m.Got[i][k], what)})
					}
				}
			}
			if !found {
				m.Spur++
				fs = append(fs, verifFinding{"C05:unsent-plaintext", fmt.Sprintf("%s received %q which the peer never sent", w.P[i].Name, verifTrunc(r.Plain))})
			}
		}
		for _, ev := range r.Events {
			if ev.Kind == 'P' && SMPEvent(ev.Code) == SMPEventAskForSecret {
				m.Asked[i] = true
			}
		}
		return fs
	}
	sys.Apply = func(w *verifWorld, e verifEv) []verifFinding {
		m := w.Mon.(*monC05)
		p := w.P[e.I]
		var fs []verifFinding
		switch e.K {
		case "send":
			k := s - m.Budget[e.I]
			m.Budget[e.I]--
			t := append([]byte(fmt.Sprintf("s%d:", m.Session)), verifC04Text(e.I, k)...)
			m.Sent[e.I] = append(m.Sent[e.I], t)
			m.Got[1-e.I] = append(m.Got[1-e.I], 0)
			r := p.Send(t)
			if r.Panic != "" {
				fs = append(fs, verifFinding{"C05:panic:" + verifPanicClass(r.Panic), r.Panic})
			}
			emit(w, e.I, r.Out)
		case "deliver":
			ri := m.Net[e.I][0]
			rec := &m.Recs[ri]
			unit := rec.Units[m.Pos[ri]]
			m.Pos[ri]++
			last := m.Pos[ri] == len(rec.Units)
			if last {
				rec.Seen = true
				m.Net[e.I] = append([]int{}, m.Net[e.I][1:]...)
			}
			r := p.Receive(unit)
			if last && verifAccepted(r) {
				rec.Accepted = true
			}
			fs = append(fs, onRecv(w, e.I, r, e.K)...)
			emit(w, e.I, r.Out)
		case "reorder":
			// the whole message j overtakes everything queued before it
			j := e.J
			ri := m.Net[e.I][j]
			rec := &m.Recs[ri]
			m.Net[e.I] = append(append([]int{}, m.Net[e.I][:j]...), m.Net[e.I][j+1:]...)
			m.Dev--
			m.Pos[ri] = len(rec.Units)
			rec.Seen = true
			for ui, u := range rec.Units {
				r := p.Receive(u)
				if ui == len(rec.Units)-1 && verifAccepted(r) {
					rec.Accepted = true
				}
				fs = append(fs, onRecv(w, e.I, r, e.K)...)
				emit(w, e.I, r.Out)
			}
		case "dup":
			m.Dev--
			rec := &m.Recs[e.J]
			for ui, u := range rec.Units {
				r := p.Receive(u)
				if ui == len(rec.Units)-1 && verifAccepted(r) {
					rec.Accepted = true
				}
				fs = append(fs, onRecv(w, e.I, r, "duplicate")...)
				emit(w, e.I, r.Out)
			}
		case "smpstart":
			m.SMP--
			r := p.StartSMP("", []byte("x"))
			emit(w, e.I, r.Out)
		case "smpanswer":
			m.Asked[e.I] = false
			r := p.AnswerSMP([]byte("x"))
			emit(w, e.I, r.Out)
		case "reake2":
			// e.I ends the session; the other side (encryption required) sees the disconnect, leaves the finished state
			// with End() and writes a new text, which is queued and starts the next exchange
			m.ReAKE = 0
			m.Session++
			o := 1 - e.I
			r := p.End()
			for _, u := range r.Out {
				w.P[o].Receive(u)
			}
			w.P[o].End()
			verifTick(w.P[0].C)
			verifTick(w.P[1].C)
			w.P[0].C.Policies.add(requireEncryption)
			w.P[1].C.Policies.add(requireEncryption)
			t := append([]byte(fmt.Sprintf("s%d:", m.Session)), verifC04Text(o, 7)...)
			m.Sent[o] = append(m.Sent[o], t)
			m.Got[e.I] = append(m.Got[e.I], 0)
			sr := w.P[o].Send(t)
			if sr.Panic != "" {
				fs = append(fs, verifFinding{"C05:panic:" + verifPanicClass(sr.Panic), sr.Panic})
			}
			emit(w, o, sr.Out)
		case "reake":
			// e.I ends the session and immediately asks for a new one
			m.ReAKE--
			m.Session++
			r := p.End()
			emit(w, e.I, r.Out)
			emit(w, e.I, [][]byte{p.Query()})
			verifTick(w.P[0].C)
			verifTick(w.P[1].C)
		}
		return fs
	}
	// in every distinct state: replay every completely delivered data message to a clone of its receiver
	sys.OnNew = func(w *verifWorld) []verifFinding {
		m := w.Mon.(*monC05)
		var fs []verifFinding
		for k, rec := range m.Recs {
			if !rec.Accepted || rec.Kind != "data" {
				continue
			}
			pc := verifClone(w.P[rec.To])
			verifCount("replay_probes_of_accepted_messages", 1)
			for _, u := range rec.Units {
				r := pc.Receive(u)
				if r.Panic != "" {
					fs = append(fs, verifFinding{"C05:panic:" + verifPanicClass(r.Panic), r.Panic})
				}
				if r.HasPln {
					fs = append(fs, verifFinding{"C05:replay-accepted:plaintext", fmt.Sprintf("replay of recorded message #%d to %s yields plaintext %q again (state %s, session %d)", k, pc.Name, verifTrunc(r.Plain), verifMsgStateName(pc.C), m.Session)})
				}
				for _, ev := range r.Events {
					if ev.Kind == 'P' || ev.Kind == 'S' || ev.Kind == 'K' {
						fs = append(fs, verifFinding{"C05:replay-accepted:event:" + ev.String()[:verifMin(len(ev.String()), 24)], fmt.Sprintf("replay of recorded message #%d to %s re-applied a TLV: %s", k, pc.Name, ev)})
					}
				}
				for _, o := range r.Out {
					if !bytes.HasPrefix(o, errorMarker) {
						fs = append(fs, verifFinding{"C05:replay-accepted:reply", fmt.Sprintf("replay of recorded message #%d to %s produced a reply %q", k, pc.Name, verifTrunc(o))})
					}
				}
			}
		}
		return fs
	}
	sys.Label = func(w *verifWorld) string {
		m := w.Mon.(*monC05)
		got := 0
		for i := 0; i < 2; i++ {
			for _, g := range m.Got[i] {
				got += g
			}
		}
		return fmt.Sprintf("delivered=%d recs=%d A=%s B=%s", got, len(m.Recs), verifMsgStateName(w.P[0].C), verifMsgStateName(w.P[1].C))
	}
	return sys
}

func verifMin(a, b int) int {
	if a < b {
		return a
	}
	return b
}

func init() {
	verifChecks["C05"] = &verifCheck{
		Level: "model_checking",
		Build: verifC05Sys,
		Run: func(r *verifReport) {
			r.Rule = "all interleavings of Send/deliver of two parties with a recording network (optionally: one side ends the session, the other — encryption required — leaves the finished state and writes a text that starts the next exchange); deviations (deliver out of order, re-deliver an already delivered data message) bounded by D, optional SMP run and End+re-AKE; in EVERY distinct state every completely delivered data message (whole fragment stream) is re-delivered to a clone of its receiver: no plaintext, no SMP/security/key event, no reply other than an OTR error; every text delivered at most once on every path"
			r.Assumptions = []string{"replays are exact copies of recorded wire messages (modified copies are C02's job)", "per-side send budget S, deviation budget D"}
			ids := []string{"v3/f0/S2/D1/R0/P0", "v2/f0/S2/D1/R0/P0", "v3/f0/S1/D1/R1/P0", "v3/f150/S1/D1/R0/P0", "v3/f0/S1/D0/R0/P1", "v3/f0/S1/D0/R2/P0"}
			if r.Tier == "thorough" {
				ids = []string{"v2/f0/S1/D1/R0/P1", "v3/f150/S2/D1/R0/P0", "v2/f0/S2/D1/R1/P0", "v2/f0/S1/D0/R2/P0", "v3/f0/S1/D1/R2/P0", "v3/f0/S1/D1/R1/P1", "v2/f120/S1/D2/R0/P0", "v3/f0/S3/D1/R0/P0", "v3/f0/S2/D2/R0/P0"} // sized to complete within the budget (deviation bound 2 together with re-keying and SMP needs > 1.4 M states for one configuration)
			}
			for _, id := range ids {
				r.explore(verifC05Sys(id, r.Seed))
			}
		},
	}
}
