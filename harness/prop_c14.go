//go:build verif

package otr3

import (
	"bytes"
	"fmt"
	"runtime"
	"strconv"
	"strings"
	"sync"
	"sync/atomic"
)

// C14 — fragmentation is lossless, bounded, and reassembled exactly once.

// ---------------------------------------------------------------------------
// independent fragment parser / reassembler (from the specification text)

type refFrag struct {
	V3       bool
	Snd, Rcv uint32
	K, N     int
	Piece    []byte
}

// refParseFragment parses "?OTR|%x|%x,%hu,%hu,%s," (v3) or "?OTR,%hu,%hu,%s," (v2).
func refParseFragment(b []byte) (f refFrag, ok bool) {
	s := string(b)
	switch {
	case strings.HasPrefix(s, "?OTR|"):
		f.V3 = true
		s = s[5:]
		i := strings.IndexByte(s, '|')
		j := strings.IndexByte(s, ',')
		if i < 0 || j < i {
			return f, false
		}
		a, e1 := strconv.ParseUint(s[:i], 16, 32)
		c, e2 := strconv.ParseUint(s[i+1:j], 16, 32)
		if e1 != nil || e2 != nil {
			return f, false
		}
		f.Snd, f.Rcv = uint32(a), uint32(c)
		s = s[j+1:]
	case strings.HasPrefix(s, "?OTR,"):
		s = s[5:]
	default:
		return f, false
	}
	parts := strings.Split(s, ",")
	if len(parts) != 4 || parts[3] != "" {
		return f, false
	}
	k, e1 := strconv.ParseUint(parts[0], 10, 16)
	n, e2 := strconv.ParseUint(parts[1], 10, 16)
	if e1 != nil || e2 != nil {
		return f, false
	}
	f.K, f.N, f.Piece = int(k), int(n), []byte(parts[2])
	return f, true
}

// the specification's reassembly state
type refAsm struct {
	K, N int
	Buf  []byte
}

// step feeds one well-formed fragment addressed to us; returns the completed message, if any
func (a *refAsm) step(f refFrag) []byte {
	switch {
	case f.K == 0 || f.N == 0 || f.K > f.N:
		return nil // illegal: ignore
	case f.K == 1:
		a.K, a.N, a.Buf = 1, f.N, append([]byte{}, f.Piece...)
	case f.N == a.N && f.K == a.K+1:
		a.K = f.K
		a.Buf = append(a.Buf, f.Piece...)
	default:
		a.K, a.N, a.Buf = 0, 0, nil
	}
	if a.N > 0 && a.K == a.N {
		out := a.Buf
		a.K, a.N, a.Buf = 0, 0, nil
		return out
	}
	return nil
}

// ---------------------------------------------------------------------------
// (a) grid: message length × every fragment size × both header formats

type c14Case struct {
	Version int `json:"version"`
	Len     int `json:"len"`
	Size    int `json:"size"`
}

// c14Sequences: the pieces of a message depend on the message and the fragment size in force, not on what the same
// conversation cut before: every ordered pair of sizes, same conversation, compared with a fresh one
func c14Sequences(w *verifWorld, v int) (fs []verifFinding, n int) {
	sizes := []int{0, 30, 37, 60, 120, 400, 1400, 65535}
	for _, l := range []int{200, 700} {
		data := verifC14Payload(l)
		for _, s1 := range sizes {
			for _, s2 := range sizes {
				n++
				conv := *w.P[0].C
				fresh := *w.P[0].C
				var got, want []ValidMessage
				func() {
					defer func() { _ = recover() }()
					conv.fragment(encodedMessage(append([]byte{}, data...)), uint16(s1))
					got = conv.fragment(encodedMessage(append([]byte{}, data...)), uint16(s2))
					want = fresh.fragment(encodedMessage(append([]byte{}, data...)), uint16(s2))
				}()
				same := len(got) == len(want)
				for i := 0; same && i < len(got); i++ {
					same = bytes.Equal(got[i], want[i])
				}
				if !same {
					fs = append(fs, verifFinding{"C14:pieces-depend-on-history", fmt.Sprintf("v%d, %d-byte message: after cutting with fragment size %d the same conversation cuts with size %d into %d piece(s), a fresh one into %d", v, l, s1, s2, len(got), len(want))})
				}
			}
		}
	}
	return
}

func verifC14Payload(l int) []byte {
	b := []byte("?OTR Error: ")
	for i := 0; len(b) < l; i++ {
		b = append(b, "abcdefghijklmnopqrstuvwxyz0123456789ABCDEFGHIJKLMNOPQRSTUVWXYZ+/="[i%65])
	}
	return b[:l]
}

// verifC14Grid evaluates one (version, length, size) case; feed: also run the pieces through a real receiver
func verifC14Grid(w *verifWorld, c c14Case, feed bool) (fs []verifFinding, inDomain bool, pieces int) {
	snd, rcv := w.P[0], w.P[1]
	data := verifC14Payload(c.Len)
	hdr := len(snd.C.version.fragmentPrefix(0, 1, snd.C.ourInstanceTag, snd.C.theirInstanceTag))
	var out []ValidMessage
	panicked := ""
	func() {
		defer func() {
			if r := recover(); r != nil {
				panicked = fmt.Sprintf("%v @ %s", r, verifPanicSite())
			}
		}()
		// every case on a copy of the sender as it is after the handshake: what it cut before must not matter here
		// (that it does not is checked separately, c14Sequences)
		sc := *snd.C
		out = sc.fragment(encodedMessage(append([]byte{}, data...)), uint16(c.Size))
	}()
	if panicked != "" {
		return []verifFinding{{"C14:fragment-panic:" + verifPanicClass(panicked), fmt.Sprintf("fragment() of a %d-byte message with size %d (v%d): %s", c.Len, c.Size, c.Version, panicked)}}, false, 0
	}
	pieces = len(out)
	if c.Size == 0 || c.Len <= c.Size {
		// no fragmentation requested/needed: the message must go out whole
		if len(out) != 1 || !bytes.Equal(out[0], data) {
			fs = append(fs, verifFinding{"C14:unfragmented-altered", fmt.Sprintf("len=%d size=%d v%d: message that fits was altered (%d pieces)", c.Len, c.Size, c.Version, len(out))})
		}
		return fs, false, pieces
	}
	room := c.Size - hdr - 1
	if room < 1 {
		return nil, false, pieces // no room for a payload byte: outside the property's domain (only: no panic)
	}
	if c.Len/room+1 > 65535 {
		// more pieces than the protocol can number (an implementation may emit one trailing empty
		// piece when the length is a multiple of the room, so that case is left out as well)
		return nil, false, pieces
	}
	inDomain = true
	bad := func(sig, format string, a ...interface{}) {
		fs = append(fs, verifFinding{"C14:" + sig, fmt.Sprintf("len=%d size=%d v%d: ", c.Len, c.Size, c.Version) + fmt.Sprintf(format, a...)})
	}
	var asm refAsm
	var got []byte
	done := 0
	for i, pc := range out {
		if len(pc) > c.Size {
			bad("piece-too-long", "piece %d of %d is %d bytes", i+1, len(out), len(pc))
			break
		}
		f, ok := refParseFragment(pc)
		if !ok {
			bad("piece-malformed", "piece %d does not parse as a fragment: %q", i+1, verifTrunc(pc))
			break
		}
		if f.V3 != (c.Version == 3) || f.K != i+1 || f.N != len(out) {
			bad("piece-header", "piece %d carries k=%d n=%d v3=%v (expected %d of %d)", i+1, f.K, f.N, f.V3, i+1, len(out))
			break
		}
		if f.V3 && (f.Snd != snd.C.ourInstanceTag || f.Rcv != snd.C.theirInstanceTag) {
			bad("piece-tags", "piece %d carries tags %x|%x", i+1, f.Snd, f.Rcv)
			break
		}
		if m := asm.step(f); m != nil {
			got = m
			done++
			if i != len(out)-1 {
				bad("early-completion", "reference reassembly completes at piece %d of %d", i+1, len(out))
			}
		}
	}
	if len(fs) == 0 && (done != 1 || !bytes.Equal(got, data)) {
		bad("reassembly-differs", "in-order reassembly gives %d message(s), equal=%v", done, bytes.Equal(got, data))
	}
	if feed && len(fs) == 0 {
		r := verifClone(rcv)
		for i, pc := range out {
			res := r.Receive(pc)
			if res.Panic != "" {
				bad("receive-panic:"+verifPanicClass(res.Panic), "%s", res.Panic)
				break
			}
			n := 0
			for _, ev := range res.Events {
				if ev.Kind == 'M' && MessageEvent(ev.Code) == MessageEventReceivedMessageGeneralError {
					n++
					if !bytes.Equal(append([]byte("?OTR Error: "), ev.Msg...), data) && !bytes.Equal(append([]byte("?OTR Error:"), ev.Msg...), data) {
						bad("receiver-content", "receiver processed a message that differs from the original")
					}
				} else {
					bad("receiver-event", "unexpected event %s at piece %d", ev, i+1)
				}
			}
			want := 0
			if i == len(out)-1 {
				want = 1
			}
			if n != want {
				bad("receiver-count", "receiver processed %d message(s) at piece %d of %d", n, i+1, len(out))
				break
			}
		}
	}
	return fs, inDomain, pieces
}

// ---------------------------------------------------------------------------
// (b) arrival sequences against the specification's reassembler

type monC14 struct {
	// the reference is nondeterministic only in what a whole (unfragmented) message does to a
	// stored partial stream; all alternatives still alive are kept
	Alts  []refAsm
	Depth int
	Max   int
	Bound uint32 // mode "unbound": peer instance the first well-formed fragment came from (0: none yet)
}

type c14Sym struct {
	Name    string
	Msg     []byte
	Foreign bool // addressed to / coming from another instance: must be ignored completely
	Garbage bool // not a well-formed fragment: must be ignored
	Whole   []byte
}

func verifC14Alphabet(w *verifWorld, payload string) []c14Sym {
	snd := w.P[0]
	v3 := snd.C.version.protocolVersion() == 3
	var syms []c14Sym
	mk := func(tag string, text []byte) [][]byte {
		// three fragments
		n := 3
		sz := (len(text) + n - 1) / n
		var out [][]byte
		for i := 0; i < n; i++ {
			lo, hi := i*sz, (i+1)*sz
			if hi > len(text) {
				hi = len(text)
			}
			pre := snd.C.version.fragmentPrefix(i, n, snd.C.ourInstanceTag, snd.C.theirInstanceTag)
			out = append(out, append(append(pre, text[lo:hi]...), ','))
		}
		return out
	}
	var mtxt, ntxt, wtxt []byte
	if payload == "data" {
		for i, t := range []*[]byte{&mtxt, &ntxt, &wtxt} {
			r := snd.Send([]byte(fmt.Sprintf("text-%c", "MNW"[i])))
			*t = r.Out[0]
		}
	} else {
		mtxt, ntxt, wtxt = []byte("?OTR Error: MMMMMM-message-M-0123456789"), []byte("?OTR Error: NNNNN-message-N-abcdefghij"), []byte("?OTR Error: whole-W")
	}
	M, N := mk("M", mtxt), mk("N", ntxt)
	for i := 0; i < 3; i++ {
		syms = append(syms, c14Sym{Name: fmt.Sprintf("M%d", i+1), Msg: M[i]})
	}
	for i := 0; i < 3; i++ {
		syms = append(syms, c14Sym{Name: fmt.Sprintf("N%d", i+1), Msg: N[i]})
	}
	syms = append(syms, c14Sym{Name: "W", Msg: wtxt, Whole: wtxt})
	pre := func(k, n int) []byte {
		return snd.C.version.fragmentPrefix(k-1, n, snd.C.ourInstanceTag, snd.C.theirInstanceTag)
	}
	syms = append(syms, c14Sym{Name: "ix0", Msg: append(append(pre(0, 3), "zz"...), ',')})
	syms = append(syms, c14Sym{Name: "ix4of3", Msg: append(append(pre(4, 3), "zz"...), ',')})
	syms = append(syms, c14Sym{Name: "M2of4", Msg: bytes.Replace(M[1], []byte(",00003,"), []byte(",00004,"), 1)})
	syms = append(syms, c14Sym{Name: "M3of4", Msg: bytes.Replace(M[2], []byte(",00003,"), []byte(",00004,"), 1)})
	syms = append(syms, c14Sym{Name: "nonnum", Msg: bytes.Replace(M[1], []byte(",00002,"), []byte(",0000x,"), 1), Garbage: true})
	syms = append(syms, c14Sym{Name: "garbage", Msg: []byte("?OTR,1,"), Garbage: true})
	if v3 {
		syms = append(syms, c14Sym{Name: "short3", Msg: []byte("?OTR|abc"), Garbage: true})
		fs := snd.C.version.fragmentPrefix(1, 3, snd.C.ourInstanceTag+1, snd.C.theirInstanceTag)
		syms = append(syms, c14Sym{Name: "foreignS", Msg: append(append(fs, "yy"...), ','), Foreign: true})
		if snd.C.theirInstanceTag != 0 {
			fr := snd.C.version.fragmentPrefix(2, 3, snd.C.ourInstanceTag, snd.C.theirInstanceTag+1)
			syms = append(syms, c14Sym{Name: "foreignR", Msg: append(append(fr, "yy"...), ','), Foreign: true})
		} else {
			// receiver not yet bound to a peer instance: pieces of another instance that would continue stream M
			own, other := []byte(fmt.Sprintf("|%08x|", snd.C.ourInstanceTag)), []byte(fmt.Sprintf("|%08x|", snd.C.ourInstanceTag+1))
			for i := 1; i < 3; i++ {
				syms = append(syms, c14Sym{Name: fmt.Sprintf("F%d", i+1), Msg: bytes.Replace(M[i], own, other, 1), Foreign: true})
			}
		}
	}
	return syms
}

// verifProcessed lists what a Receive call processed (contents for error payloads, "processed" marks for data)
func verifC14Observed(r verifResult, payload string) []string {
	var obs []string
	if payload == "data" {
		if r.HasPln {
			obs = append(obs, "plain:"+string(r.Plain))
		}
		for _, ev := range r.Events {
			if ev.Kind == 'M' {
				switch MessageEvent(ev.Code) {
				case MessageEventReceivedMessageUnreadable, MessageEventReceivedMessageMalformed:
					obs = append(obs, "rejected")
				}
			}
		}
		return obs
	}
	for _, ev := range r.Events {
		if ev.Kind == 'M' && MessageEvent(ev.Code) == MessageEventReceivedMessageGeneralError {
			obs = append(obs, "?OTR Error: "+string(ev.Msg))
		}
	}
	return obs
}

// id: "v<2|3>/<err|data>/d<maxdepth>/<dedup|nodedup>"
func verifC14Sys(id string, seed int64) *verifSys {
	var v, depth int
	var payload, mode string
	parts := strings.Split(id, "/")
	if len(parts) != 4 {
		return nil
	}
	fmt.Sscanf(parts[0], "v%d", &v)
	payload = parts[1]
	fmt.Sscanf(parts[2], "d%d", &depth)
	mode = parts[3]
	sys := &verifSys{Prop: "C14", ID: id, Seed: seed, NoDedup: mode == "nodedup"}
	var syms []c14Sym
	var once sync.Once
	base := func() *verifWorld {
		if mode == "unbound" {
			// first contact: the receiver has never seen a message; the first well-formed fragment tells it which
			// instance of the peer it is talking to, and pieces of any other instance are none of its business
			w := verifNewPair(verifPairCfg{Seed: seed, PolA: verifPolFor(v), PolB: verifPolFor(v), VA: v, VB: v})
			w.P[0].C.GetOurInstanceTag()
			w.P[1].C.GetOurInstanceTag()
			return w
		}
		w := verifEstablished(seed, v, 0)
		// make the clock quiet: no heartbeats
		return w
	}
	sys.Init = func() *verifWorld {
		w := base()
		once.Do(func() { syms = verifC14Alphabet(w.clone(), payload) })
		// the alphabet was built on a clone of the sender: for data payloads the receiver sees fresh messages
		w.Mon = &monC14{Alts: []refAsm{{}}, Max: depth}
		w.P[1].Rec.take()
		return w
	}
	sys.Evs = func(w *verifWorld) []verifEv {
		m := w.Mon.(*monC14)
		if m.Max > 0 && m.Depth >= m.Max {
			return nil
		}
		var evs []verifEv
		for i := range syms {
			evs = append(evs, verifEv{K: "arrive", I: i, S: syms[i].Name})
		}
		return evs
	}
	sys.Apply = func(w *verifWorld, e verifEv) []verifFinding {
		m := w.Mon.(*monC14)
		if m.Max > 0 {
			m.Depth++ // only bounded searches count steps (an unbounded one must be able to close the state graph)
		}
		sym := syms[e.I]
		if mode == "unbound" && !sym.Garbage && sym.Whole == nil {
			// whose pieces are foreign depends on who spoke first
			if f, ok := refParseFragment(sym.Msg); ok && f.V3 {
				if m.Bound == 0 {
					m.Bound = f.Snd
				}
				sym.Foreign = f.Snd != m.Bound
			}
		}
		r := w.P[1].Receive(sym.Msg)
		if r.Panic != "" {
			return []verifFinding{{"C14:panic:" + verifPanicClass(r.Panic), r.Panic}}
		}
		if mode == "unbound" && sym.Garbage && m.Bound == 0 {
			// whether a malformed piece with valid tags in its header tells the receiver who its peer is is C15's
			// question; the reassembly model follows the implementation there
			m.Bound = w.P[1].C.theirInstanceTag
		}
		obs := verifC14Observed(r, payload)
		// reference alternatives
		var next []refAsm
		var wants [][]string
		for _, a := range m.Alts {
			switch {
			case sym.Foreign, sym.Garbage:
				next = append(next, a)
				wants = append(wants, nil)
			case sym.Whole != nil:
				// a whole message is processed itself; a stored partial stream may be kept or forgotten
				next = append(next, a, refAsm{})
				wants = append(wants, []string{string(sym.Whole)}, []string{string(sym.Whole)})
			default:
				f, ok := refParseFragment(sym.Msg)
				if !ok {
					panic("verif: alphabet symbol does not parse: " + sym.Name)
				}
				b := refAsm{K: a.K, N: a.N, Buf: append([]byte{}, a.Buf...)}
				var want []string
				if done := b.step(f); done != nil {
					want = []string{string(done)}
				}
				next = append(next, b)
				wants = append(wants, want)
			}
		}
		var alive []refAsm
		for i := range next {
			if verifC14Match(obs, wants[i], payload) {
				dup := false
				for _, x := range alive {
					if x.K == next[i].K && x.N == next[i].N && bytes.Equal(x.Buf, next[i].Buf) {
						dup = true
					}
				}
				if !dup {
					alive = append(alive, next[i])
				}
			}
		}
		if len(alive) == 0 {
			var want []string
			if len(wants) > 0 {
				want = wants[0]
			}
			kind := "spurious-processing"
			if len(obs) < len(want) {
				kind = "missing-processing"
			} else if len(obs) == len(want) {
				kind = "wrong-message-processed"
			}
			class := "fragment"
			switch {
			case sym.Foreign:
				class = "foreign"
			case sym.Garbage:
				class = "garbage"
			case sym.Whole != nil:
				class = "whole"
			default:
				f, _ := refParseFragment(sym.Msg)
				if f.K == 0 || f.K > f.N {
					class = "illegal-index"
				}
			}
			m.Alts = []refAsm{{}}
			return []verifFinding{{fmt.Sprintf("C14:%s:after-%s", kind, class), fmt.Sprintf("on arrival of %s the receiver processed %q, the specification's reassembler expects %q", sym.Name, obs, want)}}
		}
		m.Alts = alive
		return nil
	}
	sys.Label = func(w *verifWorld) string {
		m := w.Mon.(*monC14)
		return fmt.Sprintf("alts=%d K=%d N=%d", len(m.Alts), m.Alts[0].K, m.Alts[0].N)
	}
	return sys
}

func verifC14Match(obs, want []string, payload string) bool {
	if len(obs) != len(want) {
		return false
	}
	if payload == "data" {
		return true // which text it is, is checked by C04/C05; here: processed exactly when a stream completes
	}
	for i := range obs {
		if obs[i] != want[i] {
			return false
		}
	}
	return true
}

func verifC14Lengths(tier string) (small []int, big []int) {
	if tier == "quick" {
		return []int{13, 14, 17, 18, 36, 37, 38, 100, 255, 256, 700}, []int{65536, 70000}
	}
	for l := 13; l <= 1024; l++ {
		small = append(small, l)
	}
	for l := 65520; l <= 65550; l++ {
		big = append(big, l)
	}
	big = append(big, 99999, 131072, 200000)
	return
}

func init() {
	verifChecks["C14"] = &verifCheck{
		Level: "model_checking",
		Build: verifC14Sys,
		ReplayCase: func(cj string, seed int64) []verifFinding {
			var c c14Case
			if err := jsonUnmarshal(cj, &c); err != nil {
				return nil
			}
			w := verifEstablished(seed, c.Version, 0)
			if c.Len == -1 {
				fs, _ := c14Sequences(w, c.Version)
				return fs
			}
			fs, _, _ := verifC14Grid(w, c, true)
			return fs
		},
		Run: func(r *verifReport) {
			r.Rule = "(a) grid: message length × EVERY fragment size 0..65535 × both header formats; pieces parsed and reassembled by an independent implementation of the fragment format, and fed to a real receiver (all sizes for lengths ≤ 1024; for longer messages when ≤ 64 pieces or size ≤ 300); non-trivial = in the property's domain (room for ≥1 payload byte, ≤ 65535 pieces) and actually fragmented. (a') every ordered pair of fragment sizes on one conversation: the second cut equals that of a fresh conversation. (b) arrival sequences: complete state-graph search over an alphabet of next/restart/wrong-total/illegal-index/non-numeric/garbage/foreign-instance fragments and whole messages, implementation compared at every step with the specification's reassembler (nondeterministic only in whether a whole message forgets a partial stream); plus the same without state matching to a fixed depth, and from first contact (receiver not yet bound to a peer instance: the first well-formed fragment decides whose pieces are foreign)"
			r.Assumptions = []string{"payloads are OTR error messages (processing reports the exact content) and, in a second variant, real data messages", "fragment sizes and lengths outside the listed lengths are not covered"}
			for _, v := range []int{3, 2} {
				fs, n := c14Sequences(verifEstablished(r.Seed, v, 0), v)
				r.Evals += int64(n)
				r.Nontrivial += int64(n)
				for _, f := range fs {
					r.addCase("C14", f.Sig, f.Detail, c14Case{Version: v, Len: -1})
				}
			}
			// (b) first: cheap
			depthND := 4
			if r.Tier == "thorough" {
				depthND = 5
			}
			for _, id := range []string{"v3/err/d0/dedup", "v2/err/d0/dedup", fmt.Sprintf("v3/err/d%d/nodedup", depthND), fmt.Sprintf("v2/err/d%d/nodedup", depthND), "v3/data/d5/dedup", "v2/data/d5/dedup", "v3/err/d0/unbound"} {
				r.explore(verifC14Sys(id, r.Seed))
			}
			// (a)
			small, big := verifC14Lengths(r.Tier)
			var evals, nontriv, outdom, fed int64
			var mu sync.Mutex
			for _, v := range []int{2, 3} {
				w := verifEstablished(r.Seed, v, 0)
				w.P[1].Rec.take()
				lens := append(append([]int{}, small...), big...)
				if r.Tier == "quick" {
					// one long message per header format keeps the quick tier short; thorough runs all
					lens = append(append([]int{}, small...), big[v-2])
				}
				for _, l := range lens {
					isBig := l > 1024
					var wg sync.WaitGroup
					nw := runtime.NumCPU()
					for k := 0; k < nw; k++ {
						wg.Add(1)
						go func(k int) {
							defer wg.Done()
							ww := w.clone()
							for s := k; s <= 65535; s += nw {
								c := c14Case{Version: v, Len: l, Size: s}
								feed := !isBig || s <= 300
								if isBig && !feed {
									hdr := 36
									if s > hdr && (l/(s-hdr))+1 <= 64 {
										feed = true
									}
								}
								fs, dom, pieces := verifC14Grid(ww, c, feed)
								atomic.AddInt64(&evals, 1)
								if dom && pieces > 1 {
									atomic.AddInt64(&nontriv, 1)
									if feed {
										atomic.AddInt64(&fed, 1)
									}
								} else if !dom {
									atomic.AddInt64(&outdom, 1)
								}
								if len(fs) > 0 {
									mu.Lock()
									for _, f := range fs {
										r.addCase("C14", f.Sig, f.Detail, c)
									}
									mu.Unlock()
								}
							}
						}(k)
					}
					wg.Wait()
					if len(r.Samples) < 10 {
						r.sample(map[string]interface{}{"grid": fmt.Sprintf("v%d len=%d sizes 0..65535", v, l)})
					}
				}
			}
			r.Evals = evals
			r.Nontrivial = nontriv
			r.Extra["grid_cases"] = evals
			r.Extra["grid_in_domain_fragmented"] = nontriv
			r.Extra["grid_fed_to_real_receiver"] = fed
			r.Extra["grid_outside_domain_or_unfragmented"] = outdom
		},
	}
}
