//go:build verif

package otr3

import (
	"bufio"
	"bytes"
	"encoding/base64"
	"encoding/binary"
	"encoding/json"
	"fmt"
	"math/big"
	"os"
	"os/exec"
	"runtime"
	"runtime/debug"
	"runtime/metrics"
	"strconv"
	"strings"
	"sync"
	"syscall"
	"time"

	"github.com/coyim/otr3/sexp"
)

// C13 — untrusted input and randomness failure never crash, hang or exhaust memory.
// Exhaustive bounded input enumerations, executed in worker subprocesses with an
// address-space limit; every call under recover with its heap allocation measured.

type c13Part interface {
	Count() int
	// Run evaluates case ix: returns findings, whether the case was non-trivial (reached beyond the
	// first length check / was classified as hostile input), and a short description
	Run(ix int) (fs []verifFinding, nontrivial bool)
	Describe(ix int) string
}

type c13Case struct {
	Part string `json:"part"`
	Ix   int    `json:"ix"`
	Desc string `json:"desc"`
}

var c13AllocSample = []metrics.Sample{{Name: "/gc/heap/allocs:bytes"}}

func c13Alloc() uint64 {
	metrics.Read(c13AllocSample)
	return c13AllocSample[0].Value.Uint64()
}

// c13Guard runs f under recover and measures its allocation against the bound 1 MiB + 4096·len(input).
func c13Guard(what string, inLen int, f func()) (fs []verifFinding) {
	a0 := c13Alloc()
	func() {
		defer func() {
			if r := recover(); r != nil {
				site := verifPanicSite()
				fs = append(fs, verifFinding{"C13:panic:" + site, fmt.Sprintf("%s panicked: %v @ %s", what, r, site)})
			}
		}()
		f()
	}()
	d := c13Alloc() - a0
	if d > uint64(1<<20+4096*inLen) {
		fs = append(fs, verifFinding{"C13:alloc:" + what, fmt.Sprintf("%s allocated %d bytes for a %d-byte input", what, d, inLen)})
	}
	return
}

// ---------------------------------------------------------------------------
// part "bytes": all byte strings of length ≤ 6 over {00,01,7f,80,ff} → binary parsers

type c13Bytes struct{ n int }

var c13ByteAlpha = []byte{0x00, 0x01, 0x7f, 0x80, 0xff}

func c13EnumString(ix int, alpha []byte, maxLen int) []byte {
	// strings ordered by length, then lexicographically
	k := len(alpha)
	cnt := 1
	for l := 0; l <= maxLen; l++ {
		if ix < cnt {
			b := make([]byte, l)
			for j := l - 1; j >= 0; j-- {
				b[j] = alpha[ix%k]
				ix /= k
			}
			return b
		}
		ix -= cnt
		cnt *= k
	}
	return nil
}

func c13EnumCount(k, maxLen int) int {
	n, c := 0, 1
	for l := 0; l <= maxLen; l++ {
		n += c
		c *= k
	}
	return n
}

func (p *c13Bytes) Count() int { return c13EnumCount(5, 6) }
func (p *c13Bytes) Describe(ix int) string {
	return fmt.Sprintf("binary parsers on %x", c13EnumString(ix, c13ByteAlpha, 6))
}

func c13BinaryParsers(in []byte) (fs []verifFinding, accepted int) {
	cp := func() []byte { return append([]byte{}, in...) }
	run := func(name string, f func()) { fs = append(fs, c13Guard(name, len(in), f)...) }
	run("ExtractByte", func() {
		if _, _, ok := ExtractByte(cp()); ok {
			accepted++
		}
	})
	run("ExtractShort", func() {
		if _, _, ok := ExtractShort(cp()); ok {
			accepted++
		}
	})
	run("ExtractWord", func() {
		if _, _, ok := ExtractWord(cp()); ok {
			accepted++
		}
	})
	run("ExtractLong", func() {
		if _, _, ok := ExtractLong(cp()); ok {
			accepted++
		}
	})
	run("ExtractData", func() {
		if _, _, ok := ExtractData(cp()); ok {
			accepted++
		}
	})
	run("ExtractMPI", func() {
		if _, _, ok := ExtractMPI(cp()); ok {
			accepted++
		}
	})
	run("ExtractMPIs", func() {
		if _, _, ok := ExtractMPIs(cp()); ok {
			accepted++
		}
	})
	run("ExtractTime", func() {
		if _, _, ok := ExtractTime(cp()); ok {
			accepted++
		}
	})
	run("ExtractFixedData", func() {
		for _, l := range []int{0, 1, 3, 7} {
			ExtractFixedData(cp(), l)
		}
	})
	run("ParsePublicKey", func() {
		if _, ok, _ := ParsePublicKey(cp()); ok {
			accepted++
		}
	})
	run("ParsePrivateKey", func() {
		if _, ok, _ := ParsePrivateKey(cp()); ok {
			accepted++
		}
	})
	pub := verifKey(1, "A").PublicKey() // generated once, outside the measured call
	run("DSAPublicKey.Verify", func() {
		// a signature of any length (as it arrives in a Signature / Reveal Signature message) is refused, not indexed
		h := make([]byte, 32)
		pub.Verify(h, cp())
		pub.Verify(h, append(make([]byte, 17), in...))
		pub.Verify(h, append(make([]byte, 39), in...))
	})
	run("ExtractInstanceTags", func() {
		ExtractInstanceTags(cp())
		ExtractInstanceTags(append([]byte("?OTR:"), append([]byte(base64.StdEncoding.EncodeToString(in)), '.')...))
		ExtractInstanceTags(append([]byte("?OTR:"), in...))
		ExtractInstanceTags(append([]byte("?OTR|"), in...))
	})
	run("tlv.deserialize", func() {
		t := tlv{}
		_ = t.deserialize(cp())
		p := plainDataMsg{}
		_ = p.deserialize(cp())
	})
	run("message.deserialize", func() {
		_ = (&dhCommit{}).deserialize(cp())
		_ = (&dhKey{}).deserialize(cp())
		_ = (&revealSig{}).deserialize(cp(), otrV3{})
		_ = (&sig{}).deserialize(cp())
		_ = (&dataMsg{}).deserialize(cp(), otrV3{})
	})
	return
}

func (p *c13Bytes) Run(ix int) ([]verifFinding, bool) {
	in := c13EnumString(ix, c13ByteAlpha, 6)
	fs, acc := c13BinaryParsers(in)
	return fs, acc > 2
}

// ---------------------------------------------------------------------------
// part "sexp": all strings of length ≤ 7 over { ( ) " # a F space } → s-expression / key-file readers

type c13Sexp struct{ quick bool }

var c13SexpAlpha = []byte{'(', ')', '"', '#', 'a', 'F', ' '}

func (p *c13Sexp) Count() int {
	if p.quick {
		return c13EnumCount(7, 6) // the enumeration is ordered by length: the quick tier stops one character earlier
	}
	return c13EnumCount(7, 7)
}
func (p *c13Sexp) Describe(ix int) string {
	return fmt.Sprintf("s-expression readers on %q", c13EnumString(ix, c13SexpAlpha, 7))
}

func c13SexpReaders(in []byte) (fs []verifFinding, accepted int) {
	rd := func(b []byte) *bufio.Reader { return bufio.NewReader(bytes.NewReader(b)) }
	run := func(name string, f func()) { fs = append(fs, c13Guard(name, len(in), f)...) }
	run("sexp.ReadValue", func() {
		if v, _ := sexp.ReadValue(rd(in)); v != nil {
			accepted++
			_ = v.String()
		}
	})
	run("sexp.Read", func() {
		r := rd(in)
		sexp.Read(r)
		sexp.ReadList(rd(in))
		sexp.ReadString(rd(in))
		sexp.ReadBigNum(rd(in))
		sexp.ReadSymbol(rd(in))
		sexp.ReadListItem(rd(in))
	})
	run("ImportKeys", func() {
		if as, err := ImportKeys(bytes.NewReader(in)); err == nil {
			accepted++
			_ = as
		}
	})
	run("ImportKeys(prefixed)", func() {
		pre := []byte("(privkeys (account (name x) (protocol y) (private-key (dsa ")
		_, _ = ImportKeys(bytes.NewReader(append(append([]byte{}, pre...), in...)))
		pre2 := []byte("(privkeys (account (name ")
		_, _ = ImportKeys(bytes.NewReader(append(append([]byte{}, pre2...), in...)))
		pre3 := []byte("(privkeys (account (name x) (protocol y) (private-key (dsa (p #0F#) (q ")
		_, _ = ImportKeys(bytes.NewReader(append(append([]byte{}, pre3...), in...)))
	})
	run("DSAPrivateKey.Import", func() {
		k := &DSAPrivateKey{}
		k.Import(in)
		k2 := &DSAPrivateKey{}
		k2.Import(append([]byte(" #01# #02# #03# #04"), in...))
	})
	return
}

func (p *c13Sexp) Run(ix int) ([]verifFinding, bool) {
	in := c13EnumString(ix, c13SexpAlpha, 7)
	fs, acc := c13SexpReaders(in)
	return fs, acc > 0
}

// ---------------------------------------------------------------------------
// part "mut": structure-aware mutations of valid serialisations and of a valid key file

type c13Mut struct {
	cases []c13MutCase
}

type c13MutCase struct {
	target string
	in     []byte
	desc   string
}

var c13Subst = []uint32{0, 1, 0x7fffffff, 0xffffffff, 0x00010000, 0x80000000}

func c13Mutations(name string, base []byte, text bool) (out []c13MutCase) {
	for l := 0; l < len(base); l++ {
		out = append(out, c13MutCase{name, append([]byte{}, base[:l]...), fmt.Sprintf("%s truncated to %d", name, l)})
	}
	for i := 0; i < len(base); i++ {
		b := append(append([]byte{}, base[:i]...), base[i+1:]...)
		out = append(out, c13MutCase{name, b, fmt.Sprintf("%s with byte %d deleted", name, i)})
	}
	if text {
		for i := 0; i < len(base); i++ {
			for _, ch := range []byte{'(', ')', '#', '"', ' ', '0', 'G'} {
				if base[i] == ch {
					continue
				}
				b := append([]byte{}, base...)
				b[i] = ch
				out = append(out, c13MutCase{name, b, fmt.Sprintf("%s with byte %d replaced by %q", name, i, ch)})
			}
		}
	} else {
		for i := 0; i+4 <= len(base); i++ {
			for _, v := range c13Subst {
				b := append([]byte{}, base...)
				binary.BigEndian.PutUint32(b[i:], v)
				out = append(out, c13MutCase{name, b, fmt.Sprintf("%s with word at %d set to %#x", name, i, v)})
			}
		}
	}
	return
}

func newC13Mut(seed int64) *c13Mut {
	k := verifKey(seed, "A")
	p := &c13Mut{}
	p.cases = append(p.cases, c13Mutations("pubkey", k.PublicKey().serialize(), false)...)
	p.cases = append(p.cases, c13Mutations("privkey", k.Serialize(), false)...)
	mp := AppendWord(nil, 3)
	mp = AppendMPIs(mp, k.PrivateKey.P, k.PrivateKey.Q, k.PrivateKey.G)
	p.cases = append(p.cases, c13Mutations("mpis", mp, false)...)
	var buf bytes.Buffer
	exportAccounts([]*Account{{Name: "alice@example.org", Protocol: "prpl-jabber", Key: k}}, &buf)
	p.cases = append(p.cases, c13Mutations("keyfile", buf.Bytes(), true)...)
	return p
}

func (p *c13Mut) Count() int             { return len(p.cases) }
func (p *c13Mut) Describe(ix int) string { return p.cases[ix].desc }
func (p *c13Mut) Run(ix int) ([]verifFinding, bool) {
	c := p.cases[ix]
	var fs []verifFinding
	acc := 0
	if c.target == "keyfile" {
		f, a := c13SexpReaders(c.in)
		fs, acc = f, a
	} else {
		f, a := c13BinaryParsers(c.in)
		fs, acc = f, a
	}
	return fs, acc > 0
}

// ---------------------------------------------------------------------------
// part "recv<v>": conversation states × hostile inputs for Receive

type c13State struct {
	Name string
	R    *verifPrincipal // the receiver in this state
	Peer *verifPrincipal // its honest peer in the matching state (factory for authenticated payloads); may be nil
}

type c13Recv struct {
	v      int
	quick  bool
	states []c13State
	inputs [][]byte
	idesc  []string
	auth   [][]c13MutCase // per state: authenticated-but-malicious inputs (built from the peer clone)
	extra  []c13MutCase   // further inputs for every state (never thinned)
	total  int
	offs   []int // prefix sums: state i covers [offs[i], offs[i+1])
	probed map[[16]byte]bool
	seed   int64
}

func c13B64(raw []byte) []byte {
	return append(append([]byte("?OTR:"), base64.StdEncoding.EncodeToString(raw)...), '.')
}

func newC13Recv(seed int64, v int, quick bool, thin int) *c13Recv {
	p := &c13Recv{v: v, quick: quick, probed: map[[16]byte]bool{}, seed: seed}
	var genuine [][]byte
	var gname []string
	rec := func(name string, ms [][]byte) {
		for _, m := range ms {
			genuine = append(genuine, m)
			gname = append(gname, name)
		}
	}
	snap := func(name string, r, peer *verifPrincipal) {
		st := c13State{Name: name, R: verifClone(r)}
		if peer != nil {
			st.Peer = verifClone(peer)
		}
		st.R.Rec.take()
		p.states = append(p.states, st)
	}
	pol := verifPolFor(v)
	w := verifNewPair(verifPairCfg{Seed: seed, PolA: pol, PolB: pol})
	A, B := w.P[0], w.P[1]
	snap("fresh", B, nil)
	nk := verifNewPrincipal(verifConvCfg{Name: "N", Seed: seed, Policies: pol, NoKeys: true})
	snap("fresh-nokeys", nk, nil)
	both := verifNewPrincipal(verifConvCfg{Name: "B", Seed: seed, Policies: policies(allowV2 | allowV3 | whitespaceStartAKE | errorStartAKE), Key: verifKey(seed, "B")})
	snap("fresh-allpolicies", both, nil)
	q := A.Query()
	rec("query", [][]byte{q})
	r := B.Receive(q) // B: AWAITING_DHKEY
	rec("commit", r.Out)
	snap("awaiting-dhkey", B, nil)
	// a conversation without long-term keys that has been talked into an exchange (an offer refused once is accepted
	// the second time; a D-H Commit is answered at once): every later step must fail cleanly, not crash
	{
		n1 := verifClone(nk)
		n1.Receive(q)
		n1.Receive(q)
		snap("nokeys-after-two-queries", n1, nil)
		n2 := verifClone(nk)
		k := n2.Receive(r.Out[0]) // B's D-H Commit
		snap("nokeys-answered-a-commit", n2, nil)
		if len(k.Out) > 0 {
			bc := verifClone(B)
			rs := bc.Receive(k.Out[0])
			for _, o := range rs.Out {
				p.extra = append(p.extra, c13MutCase{"nokeys", o, "the Reveal Signature message that answers a key-less conversation's D-H Key"})
			}
		}
	}
	r2 := A.Receive(r.Out[0]) // A: AWAITING_REVEALSIG
	rec("dhkey", r2.Out)
	snap("awaiting-revealsig", A, nil)
	r3 := B.Receive(r2.Out[0]) // B: AWAITING_SIG
	rec("revealsig", r3.Out)
	snap("awaiting-sig", B, nil)
	r4 := A.Receive(r3.Out[0]) // A encrypted
	rec("sig", r4.Out)
	B.Receive(r4.Out[0])
	snap("encrypted", B, A)
	// the data message that B would receive next
	d1 := A.Send([]byte("hello"))
	rec("data", d1.Out)
	// rotations
	x := B.Receive(d1.Out[0])
	for _, o := range x.Out {
		A.Receive(o)
	}
	for i := 0; i < 2; i++ {
		m := B.Send([]byte("pong"))
		ra := A.Receive(m.Out[0])
		for _, o := range ra.Out {
			B.Receive(o)
		}
		m2 := A.Send([]byte("ping"))
		rb := B.Receive(m2.Out[0])
		for _, o := range rb.Out {
			A.Receive(o)
		}
	}
	snap("encrypted-rotated", B, A)
	d2 := A.Send([]byte("after rotation"))
	rec("data-rotated", d2.Out)
	B.Receive(d2.Out[0])
	// SMP: B initiates → B expects 2
	s1 := B.StartSMP("question?", []byte("secret"))
	rec("smp1", s1.Out)
	snap("smp-expect2", B, A)
	A.Receive(s1.Out[0])
	snap("smp-waiting-for-secret", A, B)
	s2 := A.AnswerSMP([]byte("secret"))
	rec("smp2", s2.Out)
	snap("smp-expect3", A, B)
	s3 := B.Receive(s2.Out[0])
	rec("smp3", s3.Out)
	snap("smp-expect4", B, A)
	s4 := A.Receive(s3.Out[0])
	rec("smp4", s4.Out)
	B.Receive(s4.Out[0])
	// fragments
	A.C.SetFragmentSize(180)
	fr := A.Send([]byte("fragmented text"))
	A.C.SetFragmentSize(0)
	rec("fragment", fr.Out[:verifMin(3, len(fr.Out))])
	for _, o := range fr.Out {
		B.Receive(o)
	}
	// a fragment train in progress whose announced total is the maximum: what the next piece may cost
	if len(fr.Out) > 1 {
		pre := fr.Out[0][:bytes.IndexByte(fr.Out[0], ',')] // "?OTR" (v2) or "?OTR|sender|receiver" (v3)
		mkf := func(k, n int, payload []byte) []byte {
			return []byte(fmt.Sprintf("%s,%05d,%05d,%s,", pre, k, n, payload))
		}
		Bf := verifClone(B)
		Bf.Receive(mkf(1, 65535, []byte("AAAA")))
		snap("fragment-1-of-65535-received", Bf, nil)
		for _, n := range []int{65535, 3} {
			for _, sz := range []int{100, 8192, 60000} {
				for _, k := range []int{2, 3, n} {
					p.extra = append(p.extra, c13MutCase{"frag", mkf(k, n, bytes.Repeat([]byte("B"), sz)), fmt.Sprintf("fragment %d of %d with a %d-byte piece", k, n, sz)})
				}
			}
		}
	}
	// disconnect
	e := A.End()
	rec("disconnect", e.Out)
	B.Receive(e.Out[0])
	snap("finished", B, nil)

	nadd := 0
	add := func(b []byte, d string) {
		nadd++
		if thin > 1 && nadd%thin != 0 {
			return // structured thinning of the quick tier (every thin-th input of the enumeration order)
		}
		p.inputs = append(p.inputs, b)
		p.idesc = append(p.idesc, d)
	}
	for gi, g := range genuine {
		name := gname[gi]
		add(g, name+" unmodified")
		if guessMessageType(g) == msgGuessQuery {
			for l := 0; l < len(g); l++ {
				add(g[:l], fmt.Sprintf("%s truncated to %d", name, l))
			}
			continue
		}
		if guessMessageType(g) == msgGuessFragment {
			for l := 0; l < len(g); l += 1 {
				if quick && l > 60 && l%7 != 0 {
					continue
				}
				add(g[:l], fmt.Sprintf("%s truncated to %d", name, l))
			}
			continue
		}
		raw, err := decode(encodedMessage(g))
		if err != nil {
			continue
		}
		for l := 0; l < len(raw); l++ {
			add(c13B64(raw[:l]), fmt.Sprintf("%s raw-truncated to %d of %d", name, l, len(raw)))
		}
		for l := 0; l < len(g); l++ {
			if quick && l > 24 && l < len(g)-12 && l%5 != 0 {
				continue
			}
			add(g[:l], fmt.Sprintf("%s base64-truncated to %d of %d", name, l, len(g)))
		}
		for i := 0; i+4 <= len(raw); i++ {
			if quick && i > 48 && i%4 != 3 {
				continue
			}
			for _, val := range c13Subst {
				b := append([]byte{}, raw...)
				binary.BigEndian.PutUint32(b[i:], val)
				add(c13B64(b), fmt.Sprintf("%s with word at %d set to %#x", name, i, val))
			}
		}
	}
	// marker variants
	alpha := []byte{':', '|', ',', '?', 'v', 'A'}
	n := c13EnumCount(len(alpha), 5)
	for i := 0; i < n; i++ {
		s := append([]byte("?OTR"), c13EnumString(i, alpha, 5)...)
		add(s, fmt.Sprintf("marker variant %q", s))
	}
	// fragment header variants
	nums := []string{"", "0", "1", "2", "65535", "65536", "-1", "99999999999", "a"}
	tags := []string{"", "0", "100", "ffffffff", "100000000", "zz"}
	for _, s := range tags {
		for _, rr := range tags {
			for _, k := range nums {
				for _, nn := range nums {
					m := fmt.Sprintf("?OTR|%s|%s,%s,%s,payload,", s, rr, k, nn)
					add([]byte(m), "fragment header "+m)
				}
			}
		}
	}
	for _, k := range nums {
		for _, nn := range nums {
			m := fmt.Sprintf("?OTR,%s,%s,payload,", k, nn)
			add([]byte(m), "fragment header "+m)
		}
	}
	// a fragment train whose reassembled content is again OTR-shaped (a fragment, a query, an error, an encoded message)
	{
		inner := []string{"?OTR|aaaa", "?OTR|aaaaaaaa|bbbbbbbb,00001,00001,x,", "?OTR,1,1,x,", "?OTR,1,2,x,", "?OTR,", "?OTR|", "?OTR:AAMD", "?OTR:AAMD.", "?OTR?", "?OTRv23?", "?OTR Error: x", "?OTR"}
		pres := []string{"?OTR", "?OTR|00000100|00000000", "?OTR|00000100|00000100"}
		if len(fr.Out) > 1 {
			pres = append(pres, string(fr.Out[0][:bytes.IndexByte(fr.Out[0], ',')]))
		}
		for _, pre := range pres {
			for _, in := range inner {
				p.extra = append(p.extra, c13MutCase{"nested", []byte(fmt.Sprintf("%s,00001,00001,%s,", pre, in)), fmt.Sprintf("single-piece train %s carrying %q", pre, in)})
				p.extra = append(p.extra, c13MutCase{"nested", []byte(fmt.Sprintf("%s,1,1,%s,", pre, in)), fmt.Sprintf("single-piece train %s (short counters) carrying %q", pre, in)})
			}
		}
	}
	// tagged plaintext: the whitespace tag base followed by EVERY 8-character group of blanks and tabs (the version
	// tags of this library, the OTRv1 tag, one-off variants, …), alone and behind a v2 / v3 / v1 / all-blank group
	{
		base := string(refTagBase)
		group := func(n int) string {
			b := make([]byte, 8)
			for i := range b {
				b[i] = ' '
				if n&(1<<uint(i)) != 0 {
					b[i] = '\t'
				}
			}
			return string(b)
		}
		firsts := []string{"", string(refWS("2")), string(refWS("3")), string(refWS("1")), "        "}
		for fi, f := range firsts {
			for n := 0; n < 256; n++ {
				if quick && fi > 0 && n%8 != fi {
					continue // quick: second groups thinned 1/8 (first groups all)
				}
				p.extra = append(p.extra, c13MutCase{"tag", []byte("hi" + base + f + group(n) + " there"), fmt.Sprintf("whitespace tag base + %q + group %08b", f, n)})
			}
		}
	}
	for _, x := range p.extra {
		p.inputs = append(p.inputs, x.in)
		p.idesc = append(p.idesc, x.desc)
	}
	for _, m := range []string{"?OTR|", "?OTR,", "?OTR|,,,,", "?OTR,,,,", "?OTR|00000100|00000100,1,1,,", "?OTR,1,1,,", "?OTR:.", "?OTR:", "?OTR:====.", "?OTR:AAMD.", "?OTR:AAID.", "?OTR:AAMC.", "?OTR:AAMK.", "?OTR:AAMR.", "?OTR:AAMS."} {
		add([]byte(m), "short message "+m)
	}
	// authenticated-but-malicious payloads, per state with a peer
	p.auth = make([][]c13MutCase, len(p.states))
	for si, st := range p.states {
		if st.Peer == nil {
			continue
		}
		p.auth[si] = c13AuthPayloads(st.Peer, !quick)
	}
	p.offs = []int{0}
	for si := range p.states {
		p.offs = append(p.offs, p.offs[si]+len(p.inputs)+len(p.auth[si]))
	}
	p.total = p.offs[len(p.states)]
	return p
}

// c13AuthPayloads builds correctly authenticated data messages with hostile contents, using a clone of the honest peer as the factory.
func c13AuthPayloads(peer *verifPrincipal, triples bool) (out []c13MutCase) {
	mk := func(desc string, msg []byte, flag byte, tlvs ...tlv) {
		f := verifClone(peer)
		var ms []ValidMessage
		func() {
			defer func() { _ = recover() }()
			ms, _, _ = f.C.createSerializedDataMessage(msg, flag, tlvs)
		}()
		if len(ms) == 1 {
			out = append(out, c13MutCase{"auth", ms[0], "authenticated payload: " + desc})
		}
	}
	w32 := func(v uint32) []byte { return AppendWord(nil, v) }
	mpi1 := AppendMPI(nil, bnFromInt(5))
	for _, ty := range []uint16{0, 1, 2, 3, 4, 5, 6, 7, 8, 9, 0xffff} {
		mk(fmt.Sprintf("TLV type %d empty", ty), []byte("x"), 0, tlv{tlvType: ty})
		mk(fmt.Sprintf("TLV type %d, length field beyond the data", ty), []byte("x"), 0, tlv{tlvType: ty, tlvLength: 0xffff, tlvValue: []byte{1, 2, 3}})
		mk(fmt.Sprintf("TLV type %d, 3 bytes", ty), nil, 1, tlv{tlvType: ty, tlvLength: 3, tlvValue: []byte{0, 0, 0}})
		mk(fmt.Sprintf("TLV type %d, length field shorter than the data", ty), nil, 1, tlv{tlvType: ty, tlvLength: 1, tlvValue: []byte{0, 0, 0, 9, 9, 9}})
	}
	for _, ty := range []uint16{2, 3, 4, 5, 7} {
		for _, cnt := range []uint32{0, 1, 2, 6, 11, 0x7fffffff, 0x80000000, 0xffffffff, 0x00100000} {
			v := w32(cnt)
			if ty == 7 {
				v = append([]byte("q\x00"), v...)
			}
			mk(fmt.Sprintf("SMP TLV %d with MPI count %#x and no MPIs", ty, cnt), nil, 1, tlv{tlvType: ty, tlvLength: uint16(len(v)), tlvValue: v})
			v2 := append(append([]byte{}, v...), mpi1...)
			mk(fmt.Sprintf("SMP TLV %d with MPI count %#x and one MPI", ty, cnt), nil, 1, tlv{tlvType: ty, tlvLength: uint16(len(v2)), tlvValue: v2})
			v3 := append(append([]byte{}, v...), w32(0xffffffff)...)
			mk(fmt.Sprintf("SMP TLV %d with MPI count %#x and an MPI length of 4 GiB", ty, cnt), nil, 1, tlv{tlvType: ty, tlvLength: uint16(len(v3)), tlvValue: v3})
		}
		// well-formed count, zero-valued MPIs
		for _, cnt := range []int{3, 6, 8, 11} {
			v := w32(uint32(cnt))
			for i := 0; i < cnt; i++ {
				v = AppendMPI(v, bnFromInt(0))
			}
			if ty == 7 {
				v = append([]byte("q\x00"), v...)
			}
			mk(fmt.Sprintf("SMP TLV %d with %d zero MPIs", ty, cnt), nil, 1, tlv{tlvType: ty, tlvLength: uint16(len(v)), tlvValue: v})
		}
	}
	// every ordered pair (thorough: triple) of TLV kinds in one data message: a handler must not rely on what an
	// earlier TLV of the same message left behind
	plausible := func(ty uint16) tlv {
		var v []byte
		cnt := map[uint16]int{2: 6, 3: 11, 4: 8, 5: 3, 7: 6}[ty]
		switch {
		case cnt > 0:
			if ty == 7 {
				v = []byte("q\x00")
			}
			v = append(v, w32(uint32(cnt))...)
			for i := 0; i < cnt; i++ {
				v = AppendMPI(v, bnFromInt(int64(3+i)))
			}
		case ty == 8:
			v = []byte{0, 0, 0, 1}
		case ty == 0:
			v = []byte{0, 0}
		}
		return tlv{tlvType: ty, tlvLength: uint16(len(v)), tlvValue: v}
	}
	kinds := []uint16{0, 1, 2, 3, 4, 5, 6, 7, 8, 9}
	for _, a := range kinds {
		for _, b := range kinds {
			mk(fmt.Sprintf("TLV sequence %d,%d", a, b), nil, 1, plausible(a), plausible(b))
			if triples {
				for _, c := range kinds {
					mk(fmt.Sprintf("TLV sequence %d,%d,%d", a, b, c), nil, 1, plausible(a), plausible(b), plausible(c))
				}
			}
		}
	}
	mk("SMP1Q without NUL", nil, 1, tlv{tlvType: 7, tlvLength: 3, tlvValue: []byte("abc")})
	mk("extra key TLV shorter than 4 bytes", nil, 1, tlv{tlvType: 8, tlvLength: 2, tlvValue: []byte{0, 1}})
	mk("extra key TLV with length beyond data", nil, 1, tlv{tlvType: 8, tlvLength: 9, tlvValue: []byte{0, 1, 2, 3}})
	mk("many TLVs", []byte("x"), 0, tlv{tlvType: 0, tlvLength: 0}, tlv{tlvType: 6}, tlv{tlvType: 6}, tlv{tlvType: 1}, tlv{tlvType: 6})
	mk("disconnect then SMP abort", nil, 1, tlv{tlvType: 1}, tlv{tlvType: 6})
	mk("plaintext with embedded NUL and garbage TLV bytes", []byte("abc\x00\x00"), 0)
	mk("64 KiB plaintext", bytes.Repeat([]byte("A"), 65536), 0)
	return
}

func bnFromInt(v int64) *big.Int { return big.NewInt(v) }

func (p *c13Recv) Count() int { return p.total }

func (p *c13Recv) locate(ix int) (si int, in []byte, desc string) {
	for si = 0; si < len(p.states); si++ {
		if ix < p.offs[si+1] {
			break
		}
	}
	k := ix - p.offs[si]
	if k < len(p.inputs) {
		return si, p.inputs[k], p.idesc[k]
	}
	c := p.auth[si][k-len(p.inputs)]
	return si, c.in, c.desc
}

func (p *c13Recv) Describe(ix int) string {
	si, _, d := p.locate(ix)
	return fmt.Sprintf("v%d state %s: %s", p.v, p.states[si].Name, d)
}

// c13InputClass: class of the input alone (a case that kills the process in one conversation state usually does so
// in all of them: one signature, not one per state)
func c13InputClass(desc string) string {
	if i := strings.Index(desc, ": "); i >= 0 && strings.Contains(desc[:i], " state ") {
		desc = desc[i+2:]
	}
	return c13Class(desc)
}

func c13Class(desc string) string {
	// stable class of an input description (numbers removed)
	var b strings.Builder
	for _, c := range desc {
		if c >= '0' && c <= '9' {
			continue
		}
		b.WriteRune(c)
	}
	s := b.String()
	if len(s) > 60 {
		s = s[:60]
	}
	return strings.ReplaceAll(strings.TrimSpace(s), " ", "-")
}

func (p *c13Recv) Run(ix int) ([]verifFinding, bool) {
	si, in, desc := p.locate(ix)
	st := p.states[si]
	r := verifClone(st.R)
	h0 := verifHash(r.C)
	var fs []verifFinding
	var res verifResult
	a0 := c13Alloc()
	res = r.Receive(in)
	d := c13Alloc() - a0
	// the harness itself copies the input a few times and clones nothing here
	if d > uint64(1<<20+4096*len(in)) {
		fs = append(fs, verifFinding{"C13:alloc:Receive:" + c13Class(desc), fmt.Sprintf("Receive allocated %d bytes for a %d-byte input (%s, state %s)", d, len(in), desc, st.Name)})
	}
	if res.Panic != "" {
		fs = append(fs, verifFinding{"C13:panic:" + verifPanicClass(res.Panic), fmt.Sprintf("Receive panicked: %s (%s, state %s, v%d)", res.Panic, desc, st.Name, p.v)})
	}
	h1 := verifHash(r.C)
	pk := h1
	if p.quick {
		// quick tier: one usability probe per (state, input family); thorough: one per distinct resulting state
		pk = verifHash(&struct {
			A int
			B string
		}{si, c13Class(desc)})
	}
	if h1 != h0 && !p.probed[pk] {
		p.probed[pk] = true
		verifCount("c13_usability_probes", 1)
		if s := c13Usable(r, p.seed, p.v); s != "" {
			fs = append(fs, verifFinding{"C13:unusable-after:" + c13Class(desc), fmt.Sprintf("%s (after %s in state %s, v%d)", s, desc, st.Name, p.v)})
		}
	}
	return fs, h1 != h0 || res.Err != "" || len(res.Events) > 0
}

// c13Usable: after the hostile input the conversation can still be ended and complete a fresh exchange and carry text both ways.
func c13Usable(r *verifPrincipal, seed int64, v int) (problem string) {
	defer func() {
		if x := recover(); x != nil {
			problem = fmt.Sprintf("harness panic in usability probe: %v", x)
		}
	}()
	if r.C.ourKeys == nil {
		return "" // a conversation without long-term keys cannot run an exchange
	}
	e := r.End()
	if e.Panic != "" {
		return "End() panicked afterwards: " + e.Panic
	}
	pol := r.C.Policies
	f := verifNewPrincipal(verifConvCfg{Name: "F", Seed: seed + 77, Policies: pol, Key: verifKey(seed, "F")})
	if r.C.theirInstanceTag >= 0x100 {
		f.C.InitializeInstanceTag(r.C.theirInstanceTag)
	} else if r.C.theirInstanceTag != 0 {
		return "" // bound to a malformed peer tag: C15's finding, nothing can be exchanged (reported there)
	}
	verifTick(r.C)
	w := &verifWorld{P: []*verifPrincipal{f, r}, Q: make([][][]byte, 2)}
	w.Q[1] = append(w.Q[1], f.Query())
	bad := ""
	ok := w.deliverAll(40, func(to int, _ []byte, rr verifResult) {
		if rr.Panic != "" {
			bad = rr.Panic
		}
	})
	if bad != "" {
		return "panic during a fresh exchange afterwards: " + bad
	}
	if !ok || !f.C.IsEncrypted() || !r.C.IsEncrypted() {
		return fmt.Sprintf("a fresh key exchange afterwards does not complete (receiver %s/%s)", verifMsgStateName(r.C), verifAuthStateName(r.C))
	}
	if s := verifProbe(w); s != "" {
		return "after a fresh exchange: " + s
	}
	return ""
}

// ---------------------------------------------------------------------------
// part "rand": the k-th read of the randomness source fails (error or short read)

type c13Rand struct {
	seed  int64
	reads [2]int // reads of A and B in the fault-free script
	cases []c13RandCase
}

type c13RandCase struct {
	who, k int
	short  bool
	k2     int // second failing read (-1: none)
}

// c13Script drives every API; it tolerates failing steps (they must only not panic)
func c13Script(w *verifWorld, onStep func()) (panics []string) {
	A, B := w.P[0], w.P[1]
	note := func(r verifResult) verifResult {
		if r.Panic != "" {
			panics = append(panics, r.Panic)
		}
		if onStep != nil {
			onStep()
		}
		return r
	}
	flush := func() {
		w.deliverAll(30, func(_ int, _ []byte, r verifResult) { note(r) })
	}
	w.Q[1] = append(w.Q[1], A.Query())
	flush()
	for i := 0; i < 3; i++ {
		w.push(0, note(A.Send([]byte("ping"))).Out)
		flush()
		w.push(1, note(B.Send([]byte("pong"))).Out)
		flush()
	}
	w.push(0, note(A.StartSMP("q", []byte("s"))).Out)
	flush()
	w.push(1, note(B.AnswerSMP([]byte("s"))).Out)
	flush()
	w.push(1, note(B.StartSMP("", []byte("t"))).Out)
	flush()
	w.push(0, note(A.AnswerSMP([]byte("t"))).Out)
	flush()
	w.push(0, note(A.ExtraKey(1, []byte("u"))).Out)
	flush()
	A.C.SetFragmentSize(150)
	w.push(0, note(A.Send([]byte("fragmented"))).Out)
	A.C.SetFragmentSize(0)
	flush()
	w.push(1, note(B.AbortSMP()).Out)
	flush()
	w.push(0, note(A.End()).Out)
	flush()
	w.push(1, note(B.End()).Out)
	flush()
	return
}

func newC13Rand(seed int64, pairs bool) *c13Rand {
	p := &c13Rand{seed: seed}
	w := p.world()
	c13Script(w, nil)
	p.reads = [2]int{w.P[0].R.Reads, w.P[1].R.Reads}
	for who := 0; who < 2; who++ {
		for k := 0; k < p.reads[who]; k++ {
			p.cases = append(p.cases, c13RandCase{who, k, false, -1}, c13RandCase{who, k, true, -1})
		}
	}
	if pairs {
		for who := 0; who < 2; who++ {
			for k := 0; k < p.reads[who]; k++ {
				for k2 := k + 1; k2 < p.reads[who]; k2++ {
					p.cases = append(p.cases, c13RandCase{who, k, false, k2})
				}
			}
		}
	}
	return p
}

func (p *c13Rand) world() *verifWorld {
	return verifNewPair(verifPairCfg{Seed: p.seed, PolA: policies(allowV2 | allowV3), PolB: policies(allowV2 | allowV3)})
}
func (p *c13Rand) Count() int { return len(p.cases) }
func (p *c13Rand) Describe(ix int) string {
	c := p.cases[ix]
	return fmt.Sprintf("read #%d of %c fails (short=%v, second failing read %d)", c.k, 'A'+c.who, c.short, c.k2)
}
func (p *c13Rand) Run(ix int) ([]verifFinding, bool) {
	c := p.cases[ix]
	w := p.world()
	d := w.P[c.who].R
	d.FailAt, d.Short = c.k, c.short
	d.FailAt2 = c.k2
	var fs []verifFinding
	probed := false
	// right after the call in which the fault fired (and before the script's own End() calls can tidy up):
	// an exchange started from either side with a healthy source must not crash on what the failed call left behind
	probe := func() {
		if probed || d.Reads <= c.k {
			return
		}
		probed = true
		for dir := 0; dir < 2; dir++ {
			cw := w.clone()
			cw.P[c.who].R.FailAt, cw.P[c.who].R.FailAt2 = -1, -1
			verifTick(cw.P[0].C)
			verifTick(cw.P[1].C)
			cw.Q[0], cw.Q[1] = nil, nil
			cw.Q[1-dir] = append(cw.Q[1-dir], cw.P[dir].Query())
			cw.deliverAll(40, func(_ int, _ []byte, r verifResult) {
				if r.Panic != "" {
					fs = append(fs, verifFinding{"C13:panic-after-rand-failure:" + verifPanicClass(r.Panic), p.Describe(ix) + " (new exchange right after the failed call): " + r.Panic})
				}
			})
		}
	}
	for _, pn := range c13Script(w, probe) {
		fs = append(fs, verifFinding{"C13:panic-on-rand-failure:" + verifPanicClass(pn), fmt.Sprintf("%s: %s", p.Describe(ix), pn)})
	}
	// heal and require usability: first as the conversations are (an exchange started from either side must
	// not crash on whatever the failed call left behind), then after End() on both sides
	d.FailAt, d.FailAt2 = -1, -1
	for dir := 0; dir < 2; dir++ {
		c := w.clone()
		verifTick(c.P[0].C)
		verifTick(c.P[1].C)
		c.Q[0], c.Q[1] = nil, nil
		c.Q[1-dir] = append(c.Q[1-dir], c.P[dir].Query())
		c.deliverAll(40, func(_ int, _ []byte, r verifResult) {
			if r.Panic != "" {
				fs = append(fs, verifFinding{"C13:panic-after-rand-failure:" + verifPanicClass(r.Panic), p.Describe(ix) + " (new exchange without End): " + r.Panic})
			}
		})
	}
	for i := 0; i < 2; i++ {
		w.P[i].End()
		verifTick(w.P[i].C)
	}
	w.Q[0], w.Q[1] = nil, nil
	w.Q[1] = append(w.Q[1], w.P[0].Query())
	bad := ""
	ok := w.deliverAll(40, func(_ int, _ []byte, r verifResult) {
		if r.Panic != "" {
			bad = r.Panic
		}
	})
	switch {
	case bad != "":
		fs = append(fs, verifFinding{"C13:panic-after-rand-failure:" + verifPanicClass(bad), p.Describe(ix) + ": " + bad})
	case !ok || !w.P[0].C.IsEncrypted() || !w.P[1].C.IsEncrypted():
		fs = append(fs, verifFinding{"C13:unusable-after-rand-failure", fmt.Sprintf("%s: a new exchange with a healthy source does not complete (A=%s/%s B=%s/%s)", p.Describe(ix),
			verifMsgStateName(w.P[0].C), verifAuthStateName(w.P[0].C), verifMsgStateName(w.P[1].C), verifAuthStateName(w.P[1].C))})
	default:
		if s := verifProbe(w); s != "" {
			fs = append(fs, verifFinding{"C13:unusable-after-rand-failure", p.Describe(ix) + ": " + s})
		}
	}
	return fs, true
}

// ---------------------------------------------------------------------------
// worker protocol

func c13BuildPart(name string, seed int64, tier string) c13Part {
	switch name {
	case "bytes":
		return &c13Bytes{}
	case "sexp":
		return &c13Sexp{quick: tier == "quick"}
	case "mut":
		return newC13Mut(seed)
	case "recv2":
		if tier == "quick" {
			return newC13Recv(seed, 2, true, 8)
		}
		return newC13Recv(seed, 2, false, 1)
	case "recv3":
		if tier == "quick" {
			return newC13Recv(seed, 3, true, 4)
		}
		return newC13Recv(seed, 3, false, 1)
	case "rand":
		return newC13Rand(seed, tier != "quick")
	}
	return nil
}

// verifC13Worker: otrmc c13worker <part> <from> <to> <batch> <seed> <tier>
func verifC13Worker(args []string) int {
	from, _ := strconv.Atoi(args[1])
	to, _ := strconv.Atoi(args[2])
	batch, _ := strconv.Atoi(args[3])
	seed, _ := strconv.ParseInt(args[4], 10, 64)
	lim := uint64(6) << 30
	debug.SetMaxStack(8 << 20) // unbounded recursion must fail fast (fatal "stack overflow"), not after filling 1 GB
	_ = syscall.Setrlimit(syscall.RLIMIT_AS, &syscall.Rlimit{Cur: lim, Max: lim})
	part := c13BuildPart(args[0], seed, args[5])
	if part == nil {
		return 2
	}
	step := 1
	if len(args) > 6 {
		step, _ = strconv.Atoi(args[6])
	}
	out := bufio.NewWriter(os.Stdout)
	evals, nontriv := 0, 0
	lastPrint := time.Now()
	for b := from; b < to; b += batch * step {
		fmt.Fprintf(out, "B %d\n", b)
		out.Flush()
		lastPrint = time.Now()
		for i := b; i < to && i < b+batch; i++ {
			if time.Since(lastPrint) > time.Second {
				// sign of life (and position) for the watchdog
				fmt.Fprintf(out, "P %d\n", i)
				out.Flush()
				lastPrint = time.Now()
			}
			fs, nt := part.Run(i)
			evals++
			if nt {
				nontriv++
			}
			for _, f := range fs {
				js, _ := json.Marshal(map[string]interface{}{"sig": f.Sig, "detail": f.Detail, "ix": i, "desc": part.Describe(i)})
				fmt.Fprintf(out, "F %s\n", js)
			}
		}
	}
	fmt.Fprintf(out, "S %d %d\n", evals, nontriv)
	out.Flush()
	return 0
}

type c13WorkerResult struct {
	evals, nontriv int
	findings       []map[string]interface{}
	lastBatch      int
	lastCase       int    // last case known to have been reached (sign-of-life lines)
	died           string // non-empty: abnormal end
}

func c13Spawn(part string, from, to, batch int, seed int64, tier string, stall time.Duration, step ...int) c13WorkerResult {
	res := c13WorkerResult{lastBatch: -1, lastCase: -1}
	st := 1
	if len(step) > 0 {
		st = step[0]
	}
	cmd := exec.Command(os.Args[0], "c13worker", part, strconv.Itoa(from), strconv.Itoa(to), strconv.Itoa(batch), strconv.FormatInt(seed, 10), tier, strconv.Itoa(st))
	cmd.Env = append(os.Environ(), "GOMAXPROCS=2")
	stdout, _ := cmd.StdoutPipe()
	var stderr bytes.Buffer
	cmd.Stderr = &stderr
	if err := cmd.Start(); err != nil {
		res.died = err.Error()
		return res
	}
	lines := make(chan string, 1024)
	go func() {
		sc := bufio.NewScanner(stdout)
		sc.Buffer(make([]byte, 1<<20), 1<<24)
		for sc.Scan() {
			lines <- sc.Text()
		}
		close(lines)
	}()
	done := false
	// building the part (thorough tier: over a million inputs, thousands of authenticated payloads) takes its time: the
	// watchdog for a single case starts with the first line the worker prints
	timer := time.NewTimer(15 * time.Minute)
	for !done {
		select {
		case l, ok := <-lines:
			if !ok {
				done = true
				break
			}
			if !timer.Stop() {
				select {
				case <-timer.C:
				default:
				}
			}
			timer.Reset(stall)
			switch {
			case strings.HasPrefix(l, "B "):
				res.lastBatch, _ = strconv.Atoi(l[2:])
				res.lastCase = res.lastBatch
			case strings.HasPrefix(l, "P "):
				res.lastCase, _ = strconv.Atoi(l[2:])
			case strings.HasPrefix(l, "F "):
				var m map[string]interface{}
				if json.Unmarshal([]byte(l[2:]), &m) == nil {
					res.findings = append(res.findings, m)
				}
			case strings.HasPrefix(l, "S "):
				fmt.Sscanf(l, "S %d %d", &res.evals, &res.nontriv)
			}
		case <-timer.C:
			_ = cmd.Process.Kill()
			res.died = fmt.Sprintf("no progress for %s (hang candidate)", stall)
			done = true
		}
	}
	err := cmd.Wait()
	if res.died == "" && err != nil {
		tail := stderr.String()
		if len(tail) > 400 {
			tail = tail[:400]
		}
		res.died = fmt.Sprintf("%v: %s", err, strings.ReplaceAll(tail, "\n", " | "))
	}
	return res
}

func c13RunPart(r *verifReport, part string, n int, batch int) {
	nw := runtime.NumCPU()
	var mu sync.Mutex
	var wg sync.WaitGroup
	totalCulprits := 0 // fatal / hanging cases isolated so far in this part (all workers)
	absorb := func(res c13WorkerResult) {
		mu.Lock()
		r.Evals += int64(res.evals)
		r.Nontrivial += int64(res.nontriv)
		for _, f := range res.findings {
			ix := int(f["ix"].(float64))
			r.addCase("C13", f["sig"].(string), f["detail"].(string), c13Case{Part: part, Ix: ix, Desc: f["desc"].(string)})
		}
		mu.Unlock()
	}
	note := func(format string, a ...interface{}) {
		mu.Lock()
		r.Caps = append(r.Caps, fmt.Sprintf(format, a...))
		r.Exhaustive = false
		mu.Unlock()
	}
	for k := 0; k < nw; k++ {
		if k*batch >= n {
			continue
		}
		wg.Add(1)
		// worker k evaluates the batches k, k+nw, k+2nw, ... (interleaved for balance)
		go func(k int) {
			defer wg.Done()
			culprits := 0
			from := k * batch
			for from < n {
				mu.Lock()
				tot := totalCulprits
				mu.Unlock()
				if tot >= 6 {
					note("part %s: %d fatal cases confirmed; the remaining batches of this worker share (from case %d, stride %d) were not evaluated", part, tot, from, nw)
					return
				}
				if culprits >= 4 {
					note("part %s: more than 4 fatal cases in one worker share; batches from case %d on (stride %d) not evaluated", part, from, nw)
					return
				}
				res := c13Spawn(part, from, n, batch, r.Seed, r.Tier, 45*time.Second, nw)
				absorb(res)
				if res.died == "" {
					return
				}
				// a worker died: isolate the case inside the last batch
				b := res.lastBatch
				if b < 0 {
					note("worker for %s died before its first batch: %s", part, res.died)
					return
				}
				hi := b + batch
				if hi > n {
					hi = n
				}
				lo := b
			if res.lastCase > lo && res.lastCase < hi {
				lo = res.lastCase // everything before the last sign of life went through
			}
			iso := c13Spawn(part, lo, hi, 1, r.Seed, r.Tier, 25*time.Second)
				culprit := iso.lastBatch
				if iso.died == "" || culprit < 0 {
					note("worker for %s died in batch %d (%s) but the batch passed in isolation", part, b, res.died)
					from = b + batch*nw
					continue
				}
				culprits++
				mu.Lock()
				totalCulprits++
				mu.Unlock()
				confirmed := 0
				for i := 0; i < 2; i++ {
					if c := c13Spawn(part, culprit, culprit+1, 1, r.Seed, r.Tier, 25*time.Second); c.died != "" {
						confirmed++
					}
				}
				p := c13BuildPart(part, r.Seed, r.Tier)
				desc := p.Describe(culprit)
				if confirmed == 2 {
					kind := "fatal"
					if strings.Contains(iso.died, "no progress") {
						kind = "hang"
					}
					mu.Lock()
					r.addCase("C13", fmt.Sprintf("C13:%s:%s:%s", kind, part, c13InputClass(desc)), fmt.Sprintf("worker process dies on this case (%s): %s", iso.died, desc), c13Case{Part: part, Ix: culprit, Desc: desc})
					mu.Unlock()
				} else {
					note("case %d of %s killed a worker once but not on isolated replays", culprit, part)
				}
				// the rest of that batch, then on with the stride
				if culprit+1 < hi {
					rest := c13Spawn(part, culprit+1, hi, batch, r.Seed, r.Tier, 45*time.Second)
					absorb(rest)
					if rest.died != "" {
						note("part %s: cases %d..%d not evaluated (another fatal case in the same batch)", part, culprit+1, hi)
					}
				}
				// the evaluations of the died worker up to the batch are already counted? no: it never printed S
				mu.Lock()
				r.Evals += int64(((b-from)/(batch*nw))*batch + (culprit - b))
				mu.Unlock()
				from = b + batch*nw
			}
		}(k)
	}
	wg.Wait()
}

func init() {
	verifChecks["C13"] = &verifCheck{
		Level: "exploration",
		ReplayCase: func(cj string, seed int64) []verifFinding {
			var c c13Case
			if jsonUnmarshal(cj, &c) != nil {
				return nil
			}
			tier := os.Getenv("VERIF_TIER")
			if tier == "" {
				tier = "quick"
			}
			// replay in a subprocess: the case may kill the process
			res := c13Spawn(c.Part, c.Ix, c.Ix+1, 1, seed, tier, 25*time.Second)
			var fs []verifFinding
			for _, f := range res.findings {
				fs = append(fs, verifFinding{f["sig"].(string), f["detail"].(string)})
			}
			if res.died != "" {
				p := c13BuildPart(c.Part, seed, tier)
				kind := "fatal"
				if strings.Contains(res.died, "no progress") {
					kind = "hang"
				}
				fs = append(fs, verifFinding{fmt.Sprintf("C13:%s:%s:%s", kind, c.Part, c13InputClass(p.Describe(c.Ix))), res.died})
			}
			return fs
		},
		Run: func(r *verifReport) {
			r.Rule = "exhaustive bounded input enumeration, every call under recover with heap allocation measured (bound 1 MiB + 4096·len): (bytes) all byte strings ≤ 6 over {00,01,7f,80,ff} into every binary parser; (sexp) all strings ≤ 7 (quick: 6) over ( ) \" # a F space into the s-expression and key-file readers (also behind valid prefixes); (mut) every truncation, single deletion and word/char substitution of valid key and MPI serialisations and of a libotr key file; (recv) 18 conversation states (two of them key-less conversations talked into an exchange) × {every raw and base64 truncation and length-word substitution of every genuine message kind, ?OTR marker variants ≤ 9 chars, fragment header variants, sizeable pieces continuing a fragment train whose announced total is 65535, single-piece trains whose content is again OTR-shaped (fragment, query, error, encoded message), tagged plaintext with every 8-character blank/tab group behind the whitespace tag base, authenticated-but-malicious TLV payloads incl. every ordered pair (thorough: triple) of the ten TLV kinds in one message} into Receive, followed by a usability probe (End, fresh exchange, text both ways) whenever the state changed; (rand) every index k at which the k-th read of Conversation.Rand fails or is short, then usability with a healed source. Non-trivial = accepted by a parser / changed state or produced an error or event"
			r.Assumptions = []string{"workers run with RLIMIT_AS = 6 GiB; a worker that dies or gives no sign of life for 45 s (it reports its position every second) is isolated to the single case and confirmed on two further isolated runs before it is reported", "allocation is read from runtime/metrics /gc/heap/allocs:bytes around each call"}
			for _, part := range []string{"bytes", "sexp", "mut", "recv3", "recv2", "rand"} {
				p := c13BuildPart(part, r.Seed, r.Tier)
				n := p.Count()
				batch := 2000
				if strings.HasPrefix(part, "recv") {
					batch = 500
				}
				if part == "rand" {
					batch = 4
				}
				t0 := time.Now()
				e0, n0 := r.Evals, r.Nontrivial
				c13RunPart(r, part, n, batch)
				r.Parts = append(r.Parts, map[string]interface{}{"part": part, "cases": n, "evaluated": r.Evals - e0, "nontrivial": r.Nontrivial - n0, "wall_s": time.Since(t0).Seconds()})
				r.sample(map[string]string{"part": part, "first": p.Describe(0), "middle": p.Describe(n / 2), "last": p.Describe(n - 1)})
				if r.Evals-e0 != int64(n) {
					r.Exhaustive = false
					r.Caps = append(r.Caps, fmt.Sprintf("part %s: %d of %d cases evaluated", part, r.Evals-e0, n))
				}
			}
		},
	}
}
