//go:build verif

package otr3

import (
	"bytes"
	"encoding/base64"
	"fmt"
	"strings"
)

// C03 — user text never reaches the wire in readable form when encryption is due.

type c03Marker struct {
	Text  []byte
	Owner int
	Class string // "free" (plaintext, no required encryption), "enc", "fin", "queued"
	Clear int    // times seen in readable form
	Enc   int    // times seen inside a data message opened with the session keys
}

type monC03 struct {
	U      int
	NSend  [2]int
	NEnd   [2]int
	NQuery [2]int
	NErr   [2]int
	NSMP   int
	NKey   int
	NTick  int
	Asked  [2]bool
	Fin    [2]bool // model: peer's disconnect accepted, End not yet called (same rule as C18)
	M      []c03Marker
	Opened int
	Unopen int
	// the key stream (key ids, counter) of the last data message of each side: AES-CTR output under a repeated key
	// stream is readable to anyone who knows or guesses one of the two plaintexts. A sender always uses its newest key
	// pair and key ids only grow, so comparing with the previous message suffices.
	Last [2]c03Stream
}

type c03Stream struct {
	Set        bool
	Our, Their uint32
	Ctr        uint64
	Stream     string
}

// c03Readable: does the wire output contain the text in readable form (raw, inside base64 armour, across fragments)?
func c03Readable(out [][]byte, text []byte) string {
	for _, o := range out {
		if bytes.Contains(o, text) {
			return "raw"
		}
	}
	for _, g := range verifGroupUnits(out) {
		m := verifReassemble(g)
		if len(g) > 1 && bytes.Contains(m, text) {
			return "across fragments"
		}
		if bytes.HasPrefix(m, []byte("?OTR:")) && len(m) > 6 {
			body := m[5:]
			if body[len(body)-1] == '.' {
				body = body[:len(body)-1]
			}
			if raw, err := base64.StdEncoding.DecodeString(string(body)); err == nil && bytes.Contains(raw, text) {
				return "inside the base64 armour"
			}
		}
	}
	return ""
}

// id: "<polA>-<polB>/f<frag>/U<n>/<full|lean|est>"
func verifC03Sys(id string, seed int64) *verifSys {
	parts := strings.Split(id, "/")
	if len(parts) != 4 {
		return nil
	}
	pp := strings.Split(parts[0], "-")
	var frag uint16
	var u int
	fmt.Sscanf(parts[1], "f%d", &frag)
	fmt.Sscanf(parts[2], "U%d", &u)
	full := parts[3] == "full"
	sys := &verifSys{Prop: "C03", ID: id, Seed: seed}
	var cfgReq [2]bool
	for i := 0; i < 2; i++ {
		cp := verifParsePol(pp[i])
		cfgReq[i] = cp.has(requireEncryption)
	}
	sys.Init = func() *verifWorld {
		w := verifNewPair(verifPairCfg{Seed: seed, PolA: verifParsePol(pp[0]), PolB: verifParsePol(pp[1]), FragA: frag, FragB: frag})
		m := &monC03{U: u, NSend: [2]int{2, 1}, NEnd: [2]int{1, 1}, NQuery: [2]int{1, 1}, NErr: [2]int{1, 0}}
		if full {
			m.NSMP, m.NKey, m.NTick = 1, 1, 1
		}
		w.Mon = m
		if parts[3] == "est" {
			// start from an established session (histories like: peer ends, new exchange starts, Send before it completes)
			w.Q[1] = append(w.Q[1], w.P[0].Query())
			if !w.deliverAll(40, nil) || !w.P[0].C.IsEncrypted() || !w.P[1].C.IsEncrypted() {
				panic("verif: C03 setup failed for " + id)
			}
			verifTick(w.P[0].C)
			verifTick(w.P[1].C)
			w.P[0].Rec.take()
			w.P[1].Rec.take()
		}
		return w
	}
	sys.Evs = func(w *verifWorld) []verifEv {
		m := w.Mon.(*monC03)
		var evs []verifEv
		for i := 0; i < 2; i++ {
			if len(w.Q[i]) > 0 {
				evs = append(evs, verifEv{K: "deliver", I: i})
			}
		}
		for i := 0; i < 2; i++ {
			if m.Asked[i] {
				evs = append(evs, verifEv{K: "smpanswer", I: i})
			}
		}
		if m.U <= 0 {
			return evs
		}
		for i := 0; i < 2; i++ {
			if m.NSend[i] > 0 {
				evs = append(evs, verifEv{K: "send", I: i})
			}
			if m.NEnd[i] > 0 {
				evs = append(evs, verifEv{K: "end", I: i})
			}
			if m.NQuery[i] > 0 {
				evs = append(evs, verifEv{K: "query", I: i})
			}
			if m.NErr[i] > 0 {
				evs = append(evs, verifEv{K: "err", I: i})
			}
		}
		if m.NSMP > 0 {
			evs = append(evs, verifEv{K: "smpstart", I: 0})
		}
		if m.NKey > 0 {
			evs = append(evs, verifEv{K: "extrakey", I: 0})
		}
		if m.NTick > 0 {
			evs = append(evs, verifEv{K: "tick"})
		}
		return evs
	}
	sys.Apply = func(w *verifWorld, e verifEv) []verifFinding {
		m := w.Mon.(*monC03)
		p := w.P[e.I]
		c := p.C
		var fs []verifFinding
		bad := func(sig, format string, a ...interface{}) {
			fs = append(fs, verifFinding{"C03:" + sig, fmt.Sprintf(format, a...) + " [" + id + "]"})
		}
		var r verifResult
		sendIx := -1
		before := c.IsEncrypted()
		switch e.K {
		case "tick":
			m.U--
			m.NTick--
			verifTick(w.P[0].C)
			verifTick(w.P[1].C)
			return nil
		case "query":
			m.U--
			m.NQuery[e.I]--
			w.Q[1-e.I] = append(w.Q[1-e.I], p.Query())
			return nil
		case "err":
			m.U--
			m.NErr[e.I]--
			w.Q[e.I] = append(w.Q[e.I], []byte("?OTR Error: unreadable"))
			return nil
		case "end":
			m.U--
			m.NEnd[e.I]--
			r = p.End()
			m.Fin[e.I] = false
		case "smpstart":
			m.U--
			m.NSMP--
			r = p.StartSMP("", []byte("s"))
		case "smpanswer":
			m.Asked[e.I] = false
			r = p.AnswerSMP([]byte("s"))
		case "extrakey":
			m.U--
			m.NKey--
			r = p.ExtraKey(3, []byte("usage"))
		case "send":
			m.U--
			m.NSend[e.I]--
			k := len(m.M)
			lens := []int{14, 250, 4300} // the longest spans more than 256 cipher blocks
			// the text's own content must not matter: some markers start like OTR messages (query, error, encoded)
			pre := []string{"", "?OTRv23? ", "?OTR Error: ", "?OTR:AAMD", "?OTR? "}[(k+len(id))%5]
			t := []byte(fmt.Sprintf("%s<<MARK-%c-%02d>>", pre, 'A'+e.I, k))
			for len(t) < lens[k%3] {
				t = append(t, byte('a'+len(t)%26))
			}
			class := "free"
			switch {
			case m.Fin[e.I]:
				class = "fin"
			case before:
				class = "enc"
			case cfgReq[e.I]: // the policy the application configured, not what the library holds now
				class = "queued"
			}
			m.M = append(m.M, c03Marker{Text: t, Owner: e.I, Class: class})
			sendIx = k
			r = p.Send(t)
			if class == "fin" && (r.Err == "" || len(r.Out) > 0) {
				bad("send-in-finished-state", "Send after the peer's disconnect returned err=%q and %d message(s)", r.Err, len(r.Out))
			}
		case "deliver":
			// a fragmented message is delivered as a whole (fragment-level interleavings are C14's and C04's subject)
			group := verifGroupUnits(w.Q[e.I])[0]
			var msg []byte
			for range group {
				msg = w.pop(e.I)
				rr := p.Receive(msg)
				r.Out = append(r.Out, rr.Out...)
				r.Events = append(r.Events, rr.Events...)
				if rr.Panic != "" {
					r.Panic = rr.Panic
				}
			}
			// peer's disconnect: same rule as in C18
			if before && !c.IsEncrypted() && guessMessageType(msg) != msgGuessError {
				m.Fin[e.I] = true
			}
			if c.IsEncrypted() {
				m.Fin[e.I] = false
			}
		}
		if r.Panic != "" {
			bad("panic:"+verifPanicClass(r.Panic), "%s", r.Panic)
		}
		for _, ev := range r.Events {
			if ev.Kind == 'P' && SMPEvent(ev.Code) == SMPEventAskForSecret {
				m.Asked[e.I] = true
			}
		}
		// the wire monitor
		var opened [][]byte
		for _, g := range verifGroupUnits(r.Out) {
			whole := verifReassemble(g)
			if guessMessageType(whole) != msgGuessData {
				continue
			}
			info := verifOpenOwn(c, whole)
			if info.Weak {
				bad("keys-from-a-public-value", "%s enciphered a data message (key ids %d/%d) under keys derived from a D-H secret of 0, 1 or p-1: whoever sees the wire derives the same AES key and reads the text", p.Name, info.SenderKeyID, info.RecipientKeyID)
			}
			if info.OK {
				m.Opened++
				opened = append(opened, info.Plain)
				if !info.CTROK {
					bad("cipher-is-not-aes-ctr", "a data message of %s (%d bytes of ciphertext) does not decrypt to the same text under the standard library's AES in counter mode: the key stream is not the specification's, a text enciphered with it is not protected as required", p.Name, len(info.Cipher))
				}
				if l := m.Last[e.I]; l.Set && l.Stream == info.Stream {
					bad("key-stream-reused", "%s enciphered two messages under the same AES key and counter (key ids %d/%d, counter %d): the xor of the two ciphertexts is the xor of the plaintexts", p.Name, info.SenderKeyID, info.RecipientKeyID, info.Ctr)
				}
				m.Last[e.I] = c03Stream{true, info.SenderKeyID, info.RecipientKeyID, info.Ctr, info.Stream}
			} else {
				m.Unopen++
			}
		}
		for k := range m.M {
			mk := &m.M[k]
			if how := c03Readable(r.Out, mk.Text); how != "" {
				mk.Clear++
				if !(mk.Class == "free" && k == sendIx) {
					bad("readable-on-the-wire:"+mk.Class, "text #%d (given to Send while %s) appears %s in the output of %s by %s", k, mk.Class, how, e, p.Name)
				}
			}
			for _, pl := range opened {
				if bytes.Contains(pl, mk.Text) {
					mk.Enc++
					if mk.Class == "fin" || mk.Class == "free" {
						bad("encrypted-copy-of-"+mk.Class+"-text", "text #%d (given to Send while %s) was emitted inside a data message by %s", k, mk.Class, p.Name)
					}
					if mk.Class == "queued" && k == sendIx {
						bad("queued-text-sent-at-once", "text #%d was queued for encryption but a data message with it left in the same call", k)
					}
				}
			}
		}
		w.push(e.I, r.Out)
		return fs
	}
	sys.Label = func(w *verifWorld) string {
		m := w.Mon.(*monC03)
		var cl []string
		for _, x := range m.M {
			cl = append(cl, fmt.Sprintf("%s:%d/%d", x.Class, x.Clear, x.Enc))
		}
		return fmt.Sprintf("A=%s B=%s %s", verifMsgStateName(w.P[0].C), verifMsgStateName(w.P[1].C), strings.Join(cl, ","))
	}
	return sys
}

func init() {
	verifChecks["C03"] = &verifCheck{
		Level: "model_checking",
		Build: verifC03Sys,
		Run: func(r *verifReport) {
			r.Rule = "explicit-state exploration of lifecycle histories (Send of fresh unmistakable markers of length 14/250/4300, some of them beginning like an OTR query, error report or encoded message, End, query, injected error report, SMP start/answer, extra-key request, clock tick, every FIFO delivery order, within an event budget) under policy sets covering every combination of {requireEncryption, sendWhitespaceTag, whitespaceStartAKE, errorStartAKE} on the sender, with and without fragmentation; a wire monitor inspects EVERY message returned by EVERY call: each marker is searched raw, inside the base64 armour and across reassembled fragments, and every data message is opened with the session keys; a marker given to Send while encrypted / finished / under required encryption must never be readable, a finished-state or plaintext marker must never be emitted encrypted either, a queued marker may only leave inside data messages of a later session"
			r.Assumptions = []string{"data messages are opened with package-internal key material of the sender", "marker texts are the only user texts in the world"}
			var ids []string
			if r.Tier == "quick" {
				// sized to stay well inside the quick budget also on a loaded machine (≈ 55 k states); the thorough tier has
				// every combination of the behaviour flags
				ids = append(ids, "2r-2/f0/U3/lean", "23r-2/f0/U3/est")
				for i, pol := range []string{"3", "3r", "3w", "3rw", "3re", "3rwse"} {
					f := []int{0, 80}[i%2]
					peer := []string{"3", "3rwse", "23ws"}[i%3]
					kind := "lean"
					if i == 1 {
						kind = "full"
					}
					ids = append(ids, fmt.Sprintf("%s-%s/f%d/U3/%s", pol, peer, f, kind))
				}
				ids = append(ids, "3-3/f0/U3/est", "3e-3r/f0/U3/est", "2w-2/f80/U3/est")
			} else {
				// sized to complete within the 25-minute budget (≈ 1.5 M states): start states with history first, then every
				// combination of the four behaviour flags on the sender, each against two of the four peers in turn
				ids = append(ids, "3-3/f0/U4/est", "3e-3r/f0/U4/est", "2w-2/f80/U4/est", "3rws-3e/f0/U4/est", "2r-2/f0/U4/full", "2rw-23ws/f80/U4/lean", "23r-2/f0/U4/est", "23rs-2r/f0/U4/lean")
				for m := 0; m < 16; m++ {
					f := ""
					for i, c := range "rwse" {
						if m&(1<<uint(i)) != 0 {
							f += string(c)
						}
					}
					peers := []string{"3", "3rwse", "23ws", "3e"}
					for k := 0; k < 2; k++ {
						if k == 1 && m%4 != 0 {
							continue // three of four flag combinations against one peer only (budget)
						}
						pi := (m + 2*k) % 4
						if k == 1 {
							pi = (m + 1 + 2*(m/4%2)) % 4
						}
						if k == 1 && pi == m%4 {
							pi = (pi + 1) % 4
						}
						ids = append(ids, fmt.Sprintf("3%s-%s/f%d/U4/%s", f, peers[pi], []int{0, 80}[(m+k)%2], []string{"lean", "full"}[(m+k)%2]))
					}
				}
			}
			for _, id := range ids {
				r.explore(verifC03Sys(id, r.Seed))
			}
		},
	}
}
