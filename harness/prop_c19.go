//go:build verif

package otr3

import (
	"fmt"
	"reflect"
	"runtime"
	"sort"
	"strings"
	"sync"
)

// C19 — a conversation's retained state is bounded, whatever the traffic.

var c19Letters = []string{"a", "b", "F", "R", "I", "g", "h", "r", "E", "M"}

var c19LetterDoc = map[string]string{
	"a": "A sends a text, delivered (with all replies)",
	"b": "B sends a text, delivered (with all replies)",
	"F": "forged data message to A: current key ids, wrong MAC",
	"R": "forged data message to A: arbitrary key ids (1000,1000), wrong MAC",
	"I": "forged data message to A: ever-increasing key ids, wrong MAC",
	"g": "garbage ?OTR: message to A",
	"h": "clock tick, then A sends a text, delivered (a heartbeat comes back)",
	"r": "refresh: clock tick, A's query, exchange run to quiescence",
	"E": "error report (?OTR Error: …) delivered to A, replies delivered",
	"M": "malformed fragment (instance tag below 0x100) delivered to A, replies delivered",
}

// c19Sizes: bytes reachable from the conversation, per top-level field
func c19Sizes(c *Conversation) map[string]int {
	out := map[string]int{}
	verifVisit(c, &verifVisitor{
		skip: func(t reflect.Type, field string) bool {
			return field == "ourKeys" || field == "ourCurrentKey" || field == "Rand" || strings.HasSuffix(field, "Handler")
		},
		onSize: func(path string, n uintptr) {
			top := strings.SplitN(strings.TrimPrefix(path, "."), ".", 3)
			key := top[0]
			if len(top) > 1 {
				key = top[0] + "." + strings.TrimSuffix(top[1], "[]")
			}
			out[key] += int(n)
		},
	})
	return out
}

type c19Probe struct {
	Sizes   [2]map[string]int
	Emitted int // bytes emitted by both parties during the last period
	MaxMsg  int // longest single message emitted during the last period
}

// c19Run repeats the pattern reps times from an established session and measures at the given repetition counts
func c19Run(seed int64, v int, pattern string, marks []int) (probes []c19Probe, problem string) {
	w := verifEstablished(seed, v, 0)
	A, B := w.P[0], w.P[1]
	// one text each way before the periodic part, so that "the last message" exists for patterns that never send
	for i := 0; i < 2; i++ {
		r := w.P[i].Send([]byte(fmt.Sprintf("text %d before the pattern", i)))
		w.push(i, r.Out)
		w.deliverAll(20, nil)
	}
	incr := uint32(5)
	emitted, maxMsg := 0, 0
	count := func(out [][]byte) {
		for _, o := range out {
			emitted += len(o)
			if len(o) > maxMsg {
				maxMsg = len(o)
			}
		}
	}
	flush := func() {
		w.deliverAll(60, func(_ int, _ []byte, r verifResult) {
			count(r.Out)
			if r.Panic != "" {
				problem = r.Panic
			}
		})
	}
	n := 0
	step := func(l byte) {
		switch l {
		case 'a', 'b', 'h':
			from := 0
			if l == 'b' {
				from = 1
			}
			if l == 'h' {
				verifTick(A.C)
				verifTick(B.C)
			}
			n++
			r := w.P[from].Send([]byte(fmt.Sprintf("periodic text %d", n)))
			if r.Panic != "" {
				problem = r.Panic
			}
			count(r.Out)
			w.push(from, r.Out)
			flush()
		case 'F':
			A.Receive(c09Forge(A.C, A.C.keys.ourKeyID, A.C.keys.theirKeyID, []byte("wrong mac key 012345")))
		case 'R':
			A.Receive(c09Forge(A.C, 1000, 1000, []byte("wrong mac key 012345")))
		case 'I':
			incr++
			A.Receive(c09Forge(A.C, incr, incr+7, []byte("wrong mac key 012345")))
		case 'g':
			A.Receive([]byte("?OTR:AAMDAAAAAAAAAAAAAAAAAAAAAAAAAAAAAAAAAAAAAAAAAAAAAAAA."))
		case 'M':
			r := A.Receive([]byte("?OTR|00000005|00000006,00001,00002,xx,"))
			count(r.Out)
			w.push(0, r.Out)
			flush()
		case 'E':
			r := A.Receive([]byte("?OTR Error: could not read that"))
			count(r.Out)
			w.push(0, r.Out)
			flush()
		case 'r':
			verifTick(A.C)
			verifTick(B.C)
			w.Q[1] = append(w.Q[1], A.Query())
			flush()
		}
		A.Rec.take()
		B.Rec.take()
	}
	mi := 0
	for rep := 1; mi < len(marks); rep++ {
		emitted, maxMsg = 0, 0
		for i := 0; i < len(pattern); i++ {
			step(pattern[i])
		}
		if rep == marks[mi] {
			probes = append(probes, c19Probe{Sizes: [2]map[string]int{c19Sizes(A.C), c19Sizes(B.C)}, Emitted: emitted, MaxMsg: maxMsg})
			mi++
		}
		if !A.C.IsEncrypted() || !B.C.IsEncrypted() {
			return probes, "session lost during the pattern"
		}
	}
	return
}

type c19Case struct {
	Ver     int    `json:"version"`
	Pattern string `json:"pattern"`
	N       int    `json:"n"`
}

func c19Eval(c c19Case, seed int64) (fs []verifFinding) {
	n := c.N
	probes, problem := c19Run(seed, c.Ver, c.Pattern, []int{n, 2 * n, 3 * n, 4 * n})
	if problem != "" {
		return []verifFinding{{"C19:run-failed", fmt.Sprintf("pattern %q v%d: %s", c.Pattern, c.Ver, problem)}}
	}
	if len(probes) != 4 {
		return nil
	}
	// growth in every one of the three consecutive intervals of n periods (a bounded buffer that is still filling
	// up during the first periods levels off; unbounded storage keeps growing)
	grows := func(x1, x2, x3, x4 int) bool {
		return x2-x1 >= n/2 && x3-x2 >= n/2 && x4-x3 >= n/2
	}
	for side := 0; side < 2; side++ {
		var keys []string
		for k := range probes[3].Sizes[side] {
			keys = append(keys, k)
		}
		sort.Strings(keys)
		for _, k := range keys {
			x1, x2, x3, x4 := probes[0].Sizes[side][k], probes[1].Sizes[side][k], probes[2].Sizes[side][k], probes[3].Sizes[side][k]
			if grows(x1, x2, x3, x4) {
				fs = append(fs, verifFinding{"C19:state-grows:" + k, fmt.Sprintf("pattern %q (v%d): bytes retained under %s of %c after %d / %d / %d / %d repetitions: %d / %d / %d / %d", c.Pattern, c.Ver, k, 'A'+side, n, 2*n, 3*n, 4*n, x1, x2, x3, x4)})
			}
		}
	}
	if grows(probes[0].Emitted, probes[1].Emitted, probes[2].Emitted, probes[3].Emitted) {
		fs = append(fs, verifFinding{"C19:output-grows", fmt.Sprintf("pattern %q (v%d): bytes emitted during one period after %d / %d / %d / %d repetitions: %d / %d / %d / %d (longest message %d / %d / %d / %d)", c.Pattern, c.Ver, n, 2*n, 3*n, 4*n,
			probes[0].Emitted, probes[1].Emitted, probes[2].Emitted, probes[3].Emitted, probes[0].MaxMsg, probes[1].MaxMsg, probes[2].MaxMsg, probes[3].MaxMsg)})
	}
	return
}

func init() {
	verifChecks["C19"] = &verifCheck{
		Level: "model_checking",
		ReplayCase: func(cj string, seed int64) []verifFinding {
			var c c19Case
			if jsonUnmarshal(cj, &c) != nil {
				return nil
			}
			return c19Eval(c, seed)
		},
		Run: func(r *verifReport) {
			r.Rule = "EVERY word of length ≤ 3 over the step alphabet {A→B text delivered, B→A text delivered, forged data message with current / arbitrary / ever-increasing key ids, garbage message, heartbeat, refresh exchange, error report, malformed fragment} (1110 periodic traffic patterns; quick 711) is repeated n, 2n, 3n and 4n times from an established session (n = 6 quick, 16 thorough) on the real conversations; the bytes reachable from each conversation are measured per field by a reflective walk (slices to capacity) and the bytes emitted during the last period are recorded. The runs are deterministic, so growth is exact: a violation is a field (or the output of one period) that grows by ≥ n/2 in each of the three consecutive intervals of n repetitions (a bounded buffer still filling up levels off; bounds of up to 3n = 18 periods are tolerated)"
			r.Assumptions = []string{"no incomplete fragment streams and no texts queued before a session exist in these histories (the two kinds of storage the property allows to grow)"}
			n := 6
			if r.Tier == "thorough" {
				n = 16
			}
			var cases []c19Case
			var gen func(prefix string, depth int)
			gen = func(prefix string, depth int) {
				if prefix != "" {
					for _, v := range []int{3, 2} {
						if v == 2 && r.Tier == "quick" && len(prefix) > 2 {
							continue // quick: v2 for patterns up to length 2
						}
						if r.Tier == "quick" && len(prefix) > 2 && strings.ContainsAny(prefix, "MFRg") {
							continue // quick: the stateless rejections (malformed fragment, forgeries with fixed key ids, garbage) in patterns up to length 2
						}
						if r.Tier == "quick" && len(prefix) > 2 && strings.Contains(prefix, "E") && !strings.ContainsAny(prefix, "ra") {
							continue // quick: an error report matters through what is resent later (after a refresh) or was sent before
						}
						cases = append(cases, c19Case{v, prefix, n})
					}
				}
				if depth == 3 {
					return
				}
				for _, l := range c19Letters {
					gen(prefix+l, depth+1)
				}
			}
			gen("", 0)
			var mu sync.Mutex
			var wg sync.WaitGroup
			next := 0
			for k := 0; k < runtime.NumCPU(); k++ {
				wg.Add(1)
				go func() {
					defer wg.Done()
					for {
						mu.Lock()
						i := next
						next++
						mu.Unlock()
						if i >= len(cases) {
							return
						}
						fs := c19Eval(cases[i], r.Seed)
						mu.Lock()
						r.Evals++
						r.Traces++
						r.Transitions += int64(7 * n * len(cases[i].Pattern))
						if strings.ContainsAny(cases[i].Pattern, "abhr") {
							r.Nontrivial++
						}
						for _, f := range fs {
							r.addCase("C19", f.Sig, f.Detail, cases[i])
						}
						mu.Unlock()
					}
				}()
			}
			wg.Wait()
			r.States = int64(len(cases))
			r.Extra["patterns"] = len(cases)
			r.Extra["alphabet"] = c19LetterDoc
			r.sample(map[string]interface{}{"pattern": "abI", "meaning": "A→B text, B→A text, forged message with increasing key ids; repeated 8, 16, 32 times"})
		},
	}
}
