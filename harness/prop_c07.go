//go:build verif

package otr3

import (
	"bytes"
	"fmt"
	"strings"
)

// C07 — the key exchange always completes on a reliable FIFO network, however it is started.

type monC07 struct {
	Steps    int
	Commits  int     // DH-Commit messages emitted since the trigger
	OldSSID  [8]byte // ssid of the session that existed before the trigger (refresh)
	WasEnc   bool
	Plain    [2][][]byte // plaintexts delivered (for queued/required-encryption texts)
	Overflow bool
	Pending  int // principal whose start trigger has not fired yet (-1: none)
	Lost     bool // B has lost the session (client restarted): A is still encrypted, B starts from scratch
}

func verifParsePol(s string) policies {
	var p policies
	for _, c := range s {
		switch c {
		case '2':
			p.add(allowV2)
		case '3':
			p.add(allowV3)
		case 'r':
			p.add(requireEncryption)
		case 'w':
			p.add(sendWhitespaceTag)
		case 's':
			p.add(whitespaceStartAKE)
		case 'e':
			p.add(errorStartAKE)
		}
	}
	return p
}

const verifC07Horizon = 60

// verifProbe sends a text each way on a clone and reports what fails.
func verifProbe(w0 *verifWorld) string {
	w := w0.clone()
	for i := 0; i < 2; i++ {
		w.Q[0], w.Q[1] = nil, nil
		txt := []byte(fmt.Sprintf("probe-from-%d", i))
		r := w.P[i].Send(txt)
		if r.Err != "" || r.Panic != "" || len(r.Out) == 0 {
			return fmt.Sprintf("probe send by %s failed: %s%s", w.P[i].Name, r.Err, r.Panic)
		}
		for _, m := range r.Out {
			if bytes.Contains(m, txt) {
				return fmt.Sprintf("probe text of %s left in the clear", w.P[i].Name)
			}
		}
		w.push(i, r.Out)
		got := false
		ok := w.deliverAll(20, func(to int, _ []byte, rr verifResult) {
			if to == 1-i && rr.HasPln && bytes.Equal(rr.Plain, txt) {
				got = true
			}
		})
		if !ok || !got {
			return fmt.Sprintf("probe text from %s was not read by %s", w.P[i].Name, w.P[1-i].Name)
		}
	}
	return ""
}

func verifAuthStateName(c *Conversation) string {
	if c.ake == nil || c.ake.state == nil {
		return "none"
	}
	return strings.TrimPrefix(c.ake.state.identityString(), "AUTHSTATE_")
}

func verifMsgStateName(c *Conversation) string {
	switch c.msgState {
	case plainText:
		return "plain"
	case encrypted:
		return "enc"
	case finished:
		return "fin"
	}
	return "?"
}

// id: "<polA>-<polB>/<start>/<trigger>/<who>" e.g. "23-3/plain/query/AB"
func verifC07Sys(id string, seed int64) *verifSys {
	parts := strings.Split(id, "/")
	if len(parts) != 4 {
		return nil
	}
	pp := strings.Split(parts[0], "-")
	if len(pp) != 2 {
		return nil
	}
	start, trig, who := parts[1], parts[2], parts[3]
	sys := &verifSys{Prop: "C07", ID: id, Seed: seed}
	sys.Init = func() *verifWorld {
		pa, pb := verifParsePol(pp[0]), verifParsePol(pp[1])
		w := verifNewPair(verifPairCfg{Seed: seed, PolA: pa, PolB: pb})
		m := &monC07{}
		w.Mon = m
		if start == "tiny" {
			// boundary outputs of the randomness source: tiny D-H exponents, so that g^x, g^y and the shared secrets
			// are short integers (MPIs of 1 to 24 bytes instead of 192)
			for i := 0; i < 2; i++ {
				for _, e := range [][]int64{{39, 8, 3, 191, 7}, {5, 191, 39, 2, 8}}[i] {
					b := make([]byte, 40)
					b[39], b[38] = byte(e), byte(e>>8)
					w.P[i].R.Script = append(w.P[i].R.Script, b)
				}
			}
		}
		if start != "plain" && start != "tiny" {
			w.Q[1] = append(w.Q[1], w.P[0].Query())
			if !w.deliverAll(40, nil) || !w.P[0].C.IsEncrypted() || !w.P[1].C.IsEncrypted() {
				panic("verif: C07 setup: no initial session for " + id)
			}
			if start == "fin" { // B ends; A becomes finished
				r := w.P[1].End()
				w.push(1, r.Out)
				w.deliverAll(10, nil)
			} else if start == "ended" { // both have left the session just now (no 60 s have passed since the exchange)
				r := w.P[0].End()
				w.push(0, r.Out)
				w.deliverAll(10, nil)
				w.P[1].End()
			} else if start == "lost" {
				// B's client was restarted: same long-term key, nothing else left. A still believes in the session.
				old := w.P[1]
				w.P[1] = verifNewPrincipal(verifConvCfg{Name: "B", Seed: seed + 500, Policies: old.C.Policies, Key: verifKey(seed, "B")})
				w.P[1].C.ourInstanceTag = old.C.ourInstanceTag // clients keep their instance tag across restarts
				m.Lost = true
				m.OldSSID = w.P[0].C.ssid
			} else {
				m.WasEnc = true
				m.OldSSID = w.P[0].C.ssid
			}
			if start != "ended" {
				verifTick(w.P[0].C)
				verifTick(w.P[1].C)
			}
			w.P[0].Rec.take()
			w.P[1].Rec.take()
		}
		// policies needed by the trigger kind
		for i := 0; i < 2; i++ {
			c := w.P[i].C
			switch trig {
			case "ws":
				c.Policies.add(sendWhitespaceTag)
				c.Policies.add(whitespaceStartAKE)
			case "err":
				c.Policies.add(errorStartAKE)
			case "req":
				c.Policies.add(requireEncryption)
			}
		}
		if start == "fin" && (trig == "ws" || trig == "req") {
			// Send is refused in the finished state: the user of the finished side has called End()
			// before anything starts (End() in the middle of an exchange is a user action that
			// legitimately abandons it and is not one of the property's triggers).
			r := w.P[0].End()
			w.push(0, r.Out)
		}
		m.Pending = -1
		first := int(who[0] - 'A')
		verifC07Trigger(w, first, trig)
		if len(who) == 3 { // "A+B": the second party's trigger fires at any later point
			m.Pending = int(who[2] - 'A')
		}
		return w
	}
	sys.Evs = func(w *verifWorld) []verifEv {
		m := w.Mon.(*monC07)
		if m.Steps >= verifC07Horizon {
			return nil
		}
		var evs []verifEv
		for i := 0; i < 2; i++ {
			if len(w.Q[i]) > 0 {
				evs = append(evs, verifEv{K: "deliver", I: i})
			}
		}
		if m.Pending >= 0 {
			evs = append(evs, verifEv{K: "trigger", I: m.Pending})
		}
		return evs
	}
	sys.Apply = func(w *verifWorld, e verifEv) []verifFinding {
		m := w.Mon.(*monC07)
		m.Steps++
		if e.K == "trigger" {
			m.Pending = -1
			before := len(w.Q[0]) + len(w.Q[1])
			verifC07Trigger(w, e.I, trig)
			_ = before
			for i := 0; i < 2; i++ {
				for _, o := range w.Q[i] {
					_ = o
				}
			}
			return nil
		}
		msg := w.pop(e.I)
		r := w.P[e.I].Receive(msg)
		var fs []verifFinding
		if r.Panic != "" {
			fs = append(fs, verifFinding{"C07:panic:" + verifPanicClass(r.Panic), r.Panic})
		}
		for _, o := range r.Out {
			if guessMessageType(o) == msgGuessDHCommit {
				m.Commits++
			}
		}
		if r.HasPln {
			m.Plain[e.I] = append(m.Plain[e.I], r.Plain)
		}
		w.push(e.I, r.Out)
		return fs
	}
	sys.Final = func(w *verifWorld) []verifFinding {
		m := w.Mon.(*monC07)
		a, b := w.P[0].C, w.P[1].C
		if m.Steps >= verifC07Horizon && (len(w.Q[0]) > 0 || len(w.Q[1]) > 0) {
			return []verifFinding{{"C07:livelock", fmt.Sprintf("still exchanging messages after %d deliveries", m.Steps)}}
		}
		if m.Commits == 0 && m.WasEnc {
			// the trigger was (legitimately) ignored: the old session must still be intact
			if !a.IsEncrypted() || !b.IsEncrypted() {
				return []verifFinding{{"C07:refresh-ignored-and-session-lost", "no exchange started and the old session is gone"}}
			}
			// the ignore window has expired (the clock was advanced after the first exchange): the trigger must work
			return []verifFinding{{"C07:trigger-ignored:" + trig, fmt.Sprintf("the trigger (%s by %s) started no key exchange although a session existed and the query-ignore window had expired (%s)", trig, who, id)}}
		}
		sa, sb := verifAuthStateName(a), verifAuthStateName(b)
		if !a.IsEncrypted() || !b.IsEncrypted() || (sa != "none" && sa != "NONE") || (sb != "none" && sb != "NONE") {
			return []verifFinding{{fmt.Sprintf("C07:stuck:%s.%s/%s.%s", verifMsgStateName(a), sa, verifMsgStateName(b), sb),
				fmt.Sprintf("quiescent but the exchange did not complete: A=%s/%s B=%s/%s (%s)", verifMsgStateName(a), sa, verifMsgStateName(b), sb, id)}}
		}
		if a.ssid != b.ssid {
			return []verifFinding{{"C07:different-sessions", fmt.Sprintf("both encrypted but SSIDs differ %x / %x", a.ssid, b.ssid)}}
		}
		if (m.WasEnc || m.Lost) && m.Commits > 0 && a.ssid == m.OldSSID {
			return []verifFinding{{"C07:refresh-not-new", "refresh exchange ran but the session is the old one"}}
		}
		if s := verifProbe(w); s != "" {
			return []verifFinding{{"C07:probe-failed", s}}
		}
		return nil
	}
	sys.Label = func(w *verifWorld) string {
		m := w.Mon.(*monC07)
		a, b := w.P[0].C, w.P[1].C
		v := 0
		if a.version != nil {
			v = int(a.version.protocolVersion())
		}
		return fmt.Sprintf("A=%s/%s B=%s/%s v%d commits=%d", verifMsgStateName(a), verifAuthStateName(a), verifMsgStateName(b), verifAuthStateName(b), v, m.Commits)
	}
	return sys
}

// verifC07Trigger makes principal i start a key exchange with the given trigger kind.
func verifC07Trigger(w *verifWorld, i int, trig string) {
	p := w.P[i]
	switch trig {
	case "query":
		w.Q[1-i] = append(w.Q[1-i], p.Query())
	case "ws", "req":
		if p.C.msgState == encrypted {
			// Send in an encrypted session does not start an exchange: use a query for the refresh
			w.Q[1-i] = append(w.Q[1-i], p.Query())
			return
		}
		r := p.Send([]byte(fmt.Sprintf("hello from %s", p.Name)))
		w.push(i, r.Out)
	case "err":
		// the peer reports an error; i has errorStartAKE and restarts
		w.Q[i] = append(w.Q[i], []byte("?OTR Error: something went wrong"))
	}
}

func init() {
	verifChecks["C07"] = &verifCheck{
		Level: "model_checking",
		Build: verifC07Sys,
		Run: func(r *verifReport) {
			r.Rule = "for each policy pair sharing a version × start state (plaintext, encrypted=refresh, one side finished, both ended a moment ago, one side restarted and lost the session while the other still believes in it, plaintext with the randomness source scripted to tiny D-H exponents) × trigger (query, whitespace tag, error-triggered restart, Send under required encryption) × initiator (A, B, both before any delivery): every interleaving of deliveries on two FIFO queues until quiescence (complete search, horizon 60 deliveries); oracle at quiescence: both encrypted, same SSID, new session on refresh, probe text readable both ways"
			r.Assumptions = []string{"reliable FIFO network, no loss", "refresh scenarios start with the 60 s query-ignore window expired (virtual clock ticked)"}
			pols := []string{"3-3", "2-2", "23-23", "23-2", "23-3", "2-23", "3-23"}
			starts := []string{"plain", "enc", "fin", "ended", "lost"}
			trigs := []string{"query", "ws", "err", "req"}
			whos := []string{"A", "B", "A+B", "B+A"}
			for _, p := range pols {
				for _, wh := range []string{"A", "B"} {
					r.explore(verifC07Sys(fmt.Sprintf("%s/tiny/query/%s", p, wh), r.Seed))
				}
				for _, s := range starts {
					for _, t := range trigs {
						for _, wh := range whos {
							r.explore(verifC07Sys(fmt.Sprintf("%s/%s/%s/%s", p, s, t, wh), r.Seed))
						}
					}
				}
			}
		},
	}
}
