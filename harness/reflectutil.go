//go:build verif

package otr3

// Reflective deep clone / canonical dump / byte scan of arbitrary object graphs,
// including unexported fields (through unsafe). Used to branch worlds without
// replaying them, to hash states exactly, and to look for retained secrets.

import (
	"sort"
	"crypto/sha256"
	"encoding/binary"
	"fmt"
	"hash"
	"math/big"
	"reflect"
	"sync"
	"time"
	"unsafe"
)

var (
	verifTimeType    = reflect.TypeOf(time.Time{})
	verifRWMutexType = reflect.TypeOf(sync.RWMutex{})
	verifMutexType   = reflect.TypeOf(sync.Mutex{})
	verifOnceType    = reflect.TypeOf(sync.Once{})
	verifDSAPrivType = reflect.TypeOf(&DSAPrivateKey{})
	verifBigIntType  = reflect.TypeOf(big.Int{})
)

// unseal returns v without the read-only flag (v must be addressable).
func verifUnseal(v reflect.Value) reflect.Value {
	if !v.CanAddr() {
		panic("verif: unseal of non-addressable " + v.Type().String())
	}
	return reflect.NewAt(v.Type(), unsafe.Pointer(v.UnsafeAddr())).Elem()
}

func verifRawCopy(dst, src reflect.Value) {
	n := src.Type().Size()
	if n == 0 {
		return
	}
	d := unsafe.Slice((*byte)(unsafe.Pointer(dst.UnsafeAddr())), n)
	s := unsafe.Slice((*byte)(unsafe.Pointer(src.UnsafeAddr())), n)
	copy(d, s)
}

type verifSliceKey struct {
	p uintptr
	c int
	t reflect.Type
}

type verifCloner struct {
	ptrs   map[uintptr]reflect.Value
	slices map[verifSliceKey]reflect.Value
}

// verifShared reports pointer types whose targets are immutable for the
// lifetime of a run and are therefore shared between clones.
func verifShared(t reflect.Type) bool {
	return t == verifDSAPrivType
}

// verifClone returns a deep copy of *p (p must be a pointer); pointer identity
// inside the graph is preserved (aliases stay aliases).
func verifClone[T any](p *T) *T {
	cl := &verifCloner{ptrs: map[uintptr]reflect.Value{}, slices: map[verifSliceKey]reflect.Value{}}
	src := reflect.ValueOf(p)
	dst := reflect.New(src.Type()).Elem()
	tmp := reflect.New(src.Type()).Elem()
	tmp.Set(src)
	cl.copyInto(dst, tmp)
	return dst.Interface().(*T)
}

func (cl *verifCloner) copyInto(dst, src reflect.Value) {
	t := src.Type()
	switch t {
	case verifTimeType:
		verifRawCopy(dst, src)
		return
	case verifRWMutexType, verifMutexType, verifOnceType:
		return // fresh zero value
	}
	switch src.Kind() {
	case reflect.Bool, reflect.Int, reflect.Int8, reflect.Int16, reflect.Int32, reflect.Int64,
		reflect.Uint, reflect.Uint8, reflect.Uint16, reflect.Uint32, reflect.Uint64, reflect.Uintptr,
		reflect.Float32, reflect.Float64, reflect.Complex64, reflect.Complex128, reflect.String, reflect.Func:
		verifRawCopy(dst, src)
	case reflect.Ptr:
		if src.IsNil() {
			return
		}
		if verifShared(t) {
			verifRawCopy(dst, src)
			return
		}
		key := src.Pointer()
		if n, ok := cl.ptrs[key]; ok {
			dst.Set(n)
			return
		}
		n := reflect.New(t.Elem())
		cl.ptrs[key] = n
		cl.copyInto(n.Elem(), src.Elem())
		dst.Set(n)
	case reflect.Slice:
		if src.IsNil() {
			return
		}
		c := src.Cap()
		// aliases are recognised across slice types with the same element type ([]byte vs. secretKeyValue)
		key := verifSliceKey{src.Pointer(), c, t.Elem()}
		n, ok := cl.slices[key]
		if ok && n.Type() != t {
			n = n.Convert(t)
		}
		if !ok {
			n = reflect.MakeSlice(t, c, c)
			cl.slices[key] = n
			full := src.Slice(0, c)
			switch t.Elem().Kind() {
			case reflect.Uint8, reflect.Uint, reflect.Uint32, reflect.Uint64, reflect.Int, reflect.Int8, reflect.Int32, reflect.Int64, reflect.Uint16, reflect.Int16, reflect.Bool:
				reflect.Copy(n, full)
			default:
				for i := 0; i < c; i++ {
					cl.copyInto(n.Index(i), full.Index(i))
				}
			}
		}
		dst.Set(n.Slice(0, src.Len()))
	case reflect.Array:
		for i := 0; i < src.Len(); i++ {
			cl.copyInto(dst.Index(i), src.Index(i))
		}
	case reflect.Struct:
		for i := 0; i < src.NumField(); i++ {
			cl.copyInto(verifUnseal(dst.Field(i)), verifUnseal(src.Field(i)))
		}
	case reflect.Interface:
		if src.IsNil() {
			return
		}
		e := src.Elem()
		tmp := reflect.New(e.Type()).Elem()
		tmp.Set(e)
		n := reflect.New(e.Type()).Elem()
		cl.copyInto(n, tmp)
		dst.Set(n)
	case reflect.Map:
		if src.IsNil() {
			return
		}
		panic("verif: clone of non-nil map " + t.String())
	default:
		panic("verif: clone of unsupported kind " + t.String())
	}
}

// ---------------------------------------------------------------------------
// canonical dump

type verifCanon struct {
	h    hash.Hash
	ptrs map[uintptr]int
	buf  [8]byte
}

func (c *verifCanon) u64(x uint64) {
	binary.BigEndian.PutUint64(c.buf[:], x)
	c.h.Write(c.buf[:])
}

func (c *verifCanon) tag(b byte) { c.h.Write([]byte{b}) }

// verifHash returns a 128-bit key of the canonical content of the graph under p.
// Struct fields tagged `verif:"nohash"` are skipped.
func verifHash(p interface{}) [16]byte {
	c := &verifCanon{h: sha256.New(), ptrs: map[uintptr]int{}}
	v := reflect.ValueOf(p)
	tmp := reflect.New(v.Type()).Elem()
	tmp.Set(v)
	c.walk(tmp)
	var out [16]byte
	copy(out[:], c.h.Sum(nil))
	return out
}

func (c *verifCanon) walk(v reflect.Value) {
	t := v.Type()
	switch t {
	case verifTimeType:
		tm := *(*time.Time)(unsafe.Pointer(v.UnsafeAddr()))
		if tm.IsZero() {
			c.tag(0)
		} else {
			c.tag(1)
			c.u64(uint64(tm.Unix()))
		}
		return
	case verifRWMutexType, verifMutexType, verifOnceType:
		return
	case verifBigIntType:
		b := (*big.Int)(unsafe.Pointer(v.UnsafeAddr()))
		c.tag('B')
		bs := b.Bytes()
		c.u64(uint64(len(bs)))
		c.h.Write(bs)
		c.u64(uint64(b.Sign() + 1))
		return
	}
	switch v.Kind() {
	case reflect.Bool:
		if v.Bool() {
			c.tag(1)
		} else {
			c.tag(0)
		}
	case reflect.Int, reflect.Int8, reflect.Int16, reflect.Int32, reflect.Int64:
		c.u64(uint64(v.Int()))
	case reflect.Uint, reflect.Uint8, reflect.Uint16, reflect.Uint32, reflect.Uint64, reflect.Uintptr:
		c.u64(v.Uint())
	case reflect.String:
		s := v.String()
		c.u64(uint64(len(s)))
		c.h.Write([]byte(s))
	case reflect.Func:
		if v.IsNil() {
			c.tag(0)
		} else {
			c.tag(1)
		}
	case reflect.Ptr:
		if v.IsNil() {
			c.tag('n')
			return
		}
		if verifShared(t) {
			c.tag('s')
			c.u64(uint64(v.Pointer())) // stable within one process; shared keys are created once
			return
		}
		key := v.Pointer()
		if ix, ok := c.ptrs[key]; ok {
			c.tag('r')
			c.u64(uint64(ix))
			return
		}
		c.ptrs[key] = len(c.ptrs)
		c.tag('p')
		c.walk(v.Elem())
	case reflect.Slice:
		// a nil slice and an empty one behave alike: same canonical form
		c.tag('S')
		n := v.Len()
		c.u64(uint64(n))
		if t.Elem().Kind() == reflect.Uint8 && n > 0 {
			c.h.Write(unsafe.Slice((*byte)(unsafe.Pointer(v.Pointer())), n))
			return
		}
		for i := 0; i < n; i++ {
			c.walk(v.Index(i))
		}
	case reflect.Array:
		for i := 0; i < v.Len(); i++ {
			c.walk(v.Index(i))
		}
	case reflect.Struct:
		for i := 0; i < v.NumField(); i++ {
			if t.Field(i).Tag.Get("verif") == "nohash" {
				continue
			}
			c.walk(verifUnseal(v.Field(i)))
		}
	case reflect.Interface:
		if v.IsNil() {
			c.tag('i')
			return
		}
		e := v.Elem()
		c.tag('I')
		s := e.Type().String()
		c.u64(uint64(len(s)))
		c.h.Write([]byte(s))
		tmp := reflect.New(e.Type()).Elem()
		tmp.Set(e)
		c.walk(tmp)
	case reflect.Map:
		if v.IsNil() {
			c.tag('m')
			return
		}
		// order-independent: digest of every (key, value) entry on its own, sorted
		c.tag('M')
		c.u64(uint64(v.Len()))
		var ds []string
		it := v.MapRange()
		for it.Next() {
			sub := &verifCanon{h: sha256.New(), ptrs: map[uintptr]int{}}
			k := reflect.New(t.Key()).Elem()
			k.Set(it.Key())
			sub.walk(k)
			e := reflect.New(t.Elem()).Elem()
			e.Set(it.Value())
			sub.walk(e)
			ds = append(ds, string(sub.h.Sum(nil)))
		}
		sort.Strings(ds)
		for _, d := range ds {
			c.h.Write([]byte(d))
		}
	default:
		panic("verif: hash of unsupported kind " + t.String())
	}
}

// ---------------------------------------------------------------------------
// generic visitor (time normalisation, byte scans, sizes)

type verifVisitor struct {
	seen map[uintptr]bool
	// onTime is called for each time.Time found (pointer to it).
	onTime func(path string, t *time.Time)
	// onBytes is called for each byte-like buffer found (full capacity).
	onBytes func(path string, b []byte)
	// onSize is called with the shallow size of every distinct allocation reached.
	onSize func(path string, n uintptr)
	// skip returns true for struct fields that must not be entered.
	skip func(t reflect.Type, field string) bool
}

func (vv *verifVisitor) visit(path string, v reflect.Value) {
	t := v.Type()
	switch t {
	case verifTimeType:
		if vv.onTime != nil {
			vv.onTime(path, (*time.Time)(unsafe.Pointer(v.UnsafeAddr())))
		}
		return
	case verifRWMutexType, verifMutexType, verifOnceType:
		return
	case verifBigIntType:
		b := (*big.Int)(unsafe.Pointer(v.UnsafeAddr()))
		bits := b.Bits()
		bits = bits[:cap(bits)]
		if len(bits) > 0 {
			if vv.onSize != nil && !vv.seen[uintptr(unsafe.Pointer(&bits[0]))] {
				vv.seen[uintptr(unsafe.Pointer(&bits[0]))] = true
				vv.onSize(path, uintptr(len(bits))*unsafe.Sizeof(bits[0]))
			}
			if vv.onBytes != nil {
				// big-endian rendering of the full word buffer
				out := make([]byte, 0, len(bits)*8)
				for i := len(bits) - 1; i >= 0; i-- {
					var w [8]byte
					binary.BigEndian.PutUint64(w[:], uint64(bits[i]))
					out = append(out, w[:]...)
				}
				vv.onBytes(path, out)
			}
		}
		return
	}
	switch v.Kind() {
	case reflect.Ptr:
		if v.IsNil() || verifShared(t) {
			return
		}
		if vv.seen[v.Pointer()] {
			return
		}
		vv.seen[v.Pointer()] = true
		if vv.onSize != nil {
			vv.onSize(path, t.Elem().Size())
		}
		vv.visit(path, v.Elem())
	case reflect.Slice:
		if v.IsNil() || v.Cap() == 0 {
			return
		}
		c := v.Cap()
		full := v.Slice(0, c)
		first := !vv.seen[v.Pointer()]
		vv.seen[v.Pointer()] = true
		if first && vv.onSize != nil {
			vv.onSize(path, uintptr(c)*t.Elem().Size())
		}
		if t.Elem().Kind() == reflect.Uint8 {
			if vv.onBytes != nil {
				vv.onBytes(path, unsafe.Slice((*byte)(unsafe.Pointer(v.Pointer())), c))
			}
			return
		}
		switch t.Elem().Kind() {
		case reflect.Bool, reflect.Int, reflect.Int8, reflect.Int16, reflect.Int32, reflect.Int64,
			reflect.Uint, reflect.Uint16, reflect.Uint32, reflect.Uint64, reflect.Uintptr:
			return
		}
		for i := 0; i < c; i++ {
			vv.visit(fmt.Sprintf("%s[]", path), full.Index(i))
		}
	case reflect.Array:
		if t.Elem().Kind() == reflect.Uint8 {
			if vv.onBytes != nil && v.Len() > 0 {
				vv.onBytes(path, unsafe.Slice((*byte)(unsafe.Pointer(v.UnsafeAddr())), v.Len()))
			}
			return
		}
		for i := 0; i < v.Len(); i++ {
			vv.visit(path+"[]", v.Index(i))
		}
	case reflect.Struct:
		for i := 0; i < v.NumField(); i++ {
			f := t.Field(i)
			if vv.skip != nil && vv.skip(t, f.Name) {
				continue
			}
			vv.visit(path+"."+f.Name, verifUnseal(v.Field(i)))
		}
	case reflect.Interface:
		if v.IsNil() {
			return
		}
		e := v.Elem()
		if e.Kind() == reflect.Ptr {
			tmp := reflect.New(e.Type()).Elem()
			tmp.Set(e)
			vv.visit(path, tmp)
			return
		}
		tmp := reflect.New(e.Type()).Elem()
		tmp.Set(e)
		if vv.onSize != nil {
			vv.onSize(path, e.Type().Size())
		}
		vv.visit(path+"("+e.Type().Name()+")", tmp)
	case reflect.String:
		if vv.onBytes != nil && v.Len() > 0 {
			vv.onBytes(path, []byte(v.String()))
		}
		if vv.onSize != nil && v.Len() > 0 {
			vv.onSize(path, uintptr(v.Len()))
		}
	}
}

func verifVisit(root interface{}, vv *verifVisitor) {
	vv.seen = map[uintptr]bool{}
	v := reflect.ValueOf(root)
	tmp := reflect.New(v.Type()).Elem()
	tmp.Set(v)
	vv.visit("", tmp)
}

// the two values of the virtual clock: "just now" and "long ago" (zero).
var verifRecent = time.Unix(1<<36, 0)

// verifNormTimes maps every time stamp reachable from the conversation to one of
// the two clock values: zero stays zero ("long ago"), anything else becomes
// "recent". Ticking (verifTick) turns everything into "long ago".
func verifNormTimes(c *Conversation) {
	verifVisit(c, &verifVisitor{onTime: func(_ string, t *time.Time) {
		if !t.IsZero() {
			*t = verifRecent
		}
	}})
}

func verifTick(c *Conversation) {
	verifVisit(c, &verifVisitor{onTime: func(_ string, t *time.Time) {
		*t = time.Time{}
	}})
}
