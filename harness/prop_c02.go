//go:build verif

package otr3

import (
	"bytes"
	"crypto/hmac"
	"crypto/sha1"
	"encoding/binary"
	"fmt"
	"runtime"
	"sort"
	"strings"
	"sync"
)

// C02 — only authentic, unmodified data messages of this session are delivered.

type c02State struct {
	Name      string
	W         *verifWorld
	R         int
	Msg       []byte   // the genuine data message in flight towards R
	Text      []byte   // its plaintext ("" for TLV-only messages)
	Kind      string   // text | heartbeat | smp | disconnect | extrakey
	Disclosed [][]byte // MAC keys disclosed on the wire so far (this and earlier sessions), plus the ones in Msg itself
	OtherCT   []byte   // ciphertext of another genuine message of the session (for substitution)
}

func c02Revealed(m []byte) [][]byte {
	_, dm, _, ok := verifParseData(m)
	if !ok {
		return nil
	}
	var out [][]byte
	for _, k := range dm.oldMACKeys {
		out = append(out, append([]byte{}, k...))
	}
	return out
}

func c02States(seed int64, v int, thorough bool) (states []c02State) {
	pol := verifPolFor(v)
	w := verifNewPair(verifPairCfg{Seed: seed, PolA: pol, PolB: pol})
	var disclosed [][]byte
	var lastCT []byte
	watch := func(out [][]byte) {
		for _, o := range out {
			disclosed = append(disclosed, c02Revealed(o)...)
			if _, dm, _, ok := verifParseData(o); ok && len(dm.encryptedMsg) > 0 {
				lastCT = append([]byte{}, dm.encryptedMsg...)
			}
		}
	}
	flush := func() {
		w.deliverAll(30, func(_ int, _ []byte, r verifResult) { watch(r.Out) })
	}
	session := func() {
		w.Q[1] = append(w.Q[1], w.P[0].Query())
		flush()
	}
	// in-flight message kinds, each emitted on a clone so that the base world is not advanced
	emit := func(name string) {
		type mk struct {
			kind string
			from int
			f    func(p *verifPrincipal) (verifResult, []byte)
		}
		kinds := []mk{
			{"text", 0, func(p *verifPrincipal) (verifResult, []byte) { t := []byte("the quick brown fox"); return p.Send(t), t }},
			{"text", 1, func(p *verifPrincipal) (verifResult, []byte) { t := []byte("jumps over"); return p.Send(t), t }},
			{"smp", 0, func(p *verifPrincipal) (verifResult, []byte) { return p.StartSMP("q?", []byte("s")), nil }},
			{"disconnect", 1, func(p *verifPrincipal) (verifResult, []byte) { return p.End(), nil }},
			{"extrakey", 0, func(p *verifPrincipal) (verifResult, []byte) { return p.ExtraKey(9, []byte("u")), nil }},
		}
		for _, k := range kinds {
			c := w.clone()
			c.P[0].Rec.take()
			c.P[1].Rec.take()
			res, txt := k.f(c.P[k.from])
			if len(res.Out) != 1 {
				continue
			}
			st := c02State{Name: fmt.Sprintf("v%d/%s/%s-from-%c", v, name, k.kind, 'A'+k.from), W: c, R: 1 - k.from, Msg: res.Out[0], Text: txt, Kind: k.kind, OtherCT: lastCT}
			st.Disclosed = append(append([][]byte{}, disclosed...), c02Revealed(res.Out[0])...)
			states = append(states, st)
			if !thorough && name != "rot1" && k.kind != "text" {
				states = states[:len(states)-1] // quick: TLV kinds only at one ratchet position
			}
		}
	}
	session()
	emit("fresh")
	for k := 1; k <= 3; k++ {
		for i := 0; i < 2; i++ {
			r := w.P[i].Send([]byte(fmt.Sprintf("rot %d/%d", k, i)))
			watch(r.Out)
			w.push(i, r.Out)
			flush()
		}
		if k == 1 || k == 3 {
			emit(fmt.Sprintf("rot%d", k))
		}
	}
	// bursts: one side sends several messages in a row, so that some arrive under its previous key id; the other
	// side's next message is the moment at which it may (not) disclose keys of a pair it still accepts
	for i := 0; i < 2; i++ {
		for k := 0; k < 3; k++ {
			r := w.P[i].Send([]byte(fmt.Sprintf("burst %d/%d", i, k)))
			watch(r.Out)
			w.push(i, r.Out)
		}
		flush()
		r := w.P[1-i].Send([]byte("reply to the burst"))
		watch(r.Out)
		w.push(1-i, r.Out)
		flush()
		emit(fmt.Sprintf("burst%c", 'A'+i))
	}
	// second session: keys of the first are "foreign"
	r := w.P[0].End()
	w.push(0, r.Out)
	flush()
	w.P[1].End()
	verifTick(w.P[0].C)
	verifTick(w.P[1].C)
	session()
	for i := 0; i < 2; i++ {
		r := w.P[i].Send([]byte("second session"))
		watch(r.Out)
		w.push(i, r.Out)
		flush()
	}
	emit("second-session")
	return
}

type c02Mut struct {
	Class string
	Desc  string
	Msg   []byte
}

func c02MAC(key, hdr, unsigned []byte) []byte {
	h := hmac.New(sha1.New, key)
	h.Write(hdr)
	h.Write(unsigned)
	return h.Sum(nil)
}

func c02Mutations(st c02State, thorough bool) (out []c02Mut) {
	raw, err := decode(encodedMessage(st.Msg))
	if err != nil {
		return nil
	}
	hdr, dm, _, ok := verifParseData(st.Msg)
	if !ok {
		return nil
	}
	add := func(class, desc string, b []byte) { out = append(out, c02Mut{class, desc, b}) }
	add("control:unchanged", "the genuine message", st.Msg)
	for p := 0; p < len(raw); p++ {
		for _, x := range []byte{0x01, 0x80, 0xff} {
			if !thorough && x == 0xff && p%4 != 0 {
				continue
			}
			b := append([]byte{}, raw...)
			b[p] ^= x
			add("flip", fmt.Sprintf("byte %d xor %#x", p, x), c13B64(b))
		}
	}
	for l := 0; l < len(raw); l++ {
		add("truncate", fmt.Sprintf("truncated to %d of %d", l, len(raw)), c13B64(raw[:l]))
	}
	authLen := len(hdr) + len(dm.serializeUnsignedCache)
	for _, n := range []int{1, 4} {
		ext := bytes.Repeat([]byte{0x41}, n)
		add("extend-after", fmt.Sprintf("%d bytes appended", n), c13B64(append(append([]byte{}, raw...), ext...)))
		in := append(append(append([]byte{}, raw[:authLen]...), ext...), raw[authLen:]...)
		add("extend-inside", fmt.Sprintf("%d bytes inserted at the end of the authenticated part", n), c13B64(in))
		in2 := append(append(append([]byte{}, raw[:len(hdr)+9]...), ext...), raw[len(hdr)+9:]...)
		add("extend-inside", fmt.Sprintf("%d bytes inserted after the key ids", n), c13B64(in2))
	}
	// structure-preserving re-encodings: the same field values in a different byte representation (length words
	// kept consistent, so the message still parses) — the MAC covers the bytes sent, not the values parsed
	if off := len(hdr) + 9; off+4 <= authLen {
		l := int(binary.BigEndian.Uint32(raw[off:]))
		if off+4+l <= authLen {
			for _, k := range []int{1, 2, 7} {
				b := append([]byte{}, raw[:off]...)
				b = append(b, AppendWord(nil, uint32(l+k))...)
				b = append(b, make([]byte, k)...)
				b = append(b, raw[off+4:]...)
				add("re-encode", fmt.Sprintf("next D-H key re-encoded with %d leading zero byte(s)", k), c13B64(b))
			}
			// ciphertext field lengthened / shortened by one byte with its length word adjusted
			coff := off + 4 + l + 8
			if coff+4 <= authLen {
				cl := int(binary.BigEndian.Uint32(raw[coff:]))
				if coff+4+cl == authLen {
					b := append([]byte{}, raw[:coff]...)
					b = append(b, AppendWord(nil, uint32(cl+1))...)
					b = append(b, raw[coff+4:authLen]...)
					b = append(b, 0)
					b = append(b, raw[authLen:]...)
					add("re-encode", "ciphertext lengthened by a zero byte, length word adjusted", c13B64(b))
					if cl > 0 {
						b2 := append([]byte{}, raw[:coff]...)
						b2 = append(b2, AppendWord(nil, uint32(cl-1))...)
						b2 = append(b2, raw[coff+4:authLen-1]...)
						b2 = append(b2, raw[authLen:]...)
						add("re-encode", "ciphertext shortened by one byte, length word adjusted", c13B64(b2))
					}
				}
			}
		}
	}
	// base64 level
	enc := st.Msg
	const alpha = "ABCDEFGHIJKLMNOPQRSTUVWXYZabcdefghijklmnopqrstuvwxyz0123456789+/"
	for p := 5; p < len(enc)-1; p++ {
		if !thorough && p%3 != 0 {
			continue
		}
		i := strings.IndexByte(alpha, enc[p])
		if i < 0 {
			continue
		}
		b := append([]byte{}, enc...)
		b[p] = alpha[(i+1)%64]
		add("base64-char", fmt.Sprintf("base64 character %d replaced by its successor", p), b)
	}
	add("base64-padding", "base64 padding removed", bytes.Replace(enc, []byte("="), nil, -1))
	add("base64-dot", "final dot removed", enc[:len(enc)-1])
	// field substitutions, MAC left alone or recomputed under every key the attacker can know
	type sub struct {
		class, desc string
		f           func(d *dataMsg)
	}
	ctr := binary.BigEndian.Uint64(dm.topHalfCtr[:])
	subs := []sub{
		{"sender-keyid", "sender key id + 1", func(d *dataMsg) { d.senderKeyID++ }},
		{"sender-keyid", "sender key id - 1", func(d *dataMsg) { d.senderKeyID-- }},
		{"recipient-keyid", "recipient key id + 1", func(d *dataMsg) { d.recipientKeyID++ }},
		{"recipient-keyid", "recipient key id - 1", func(d *dataMsg) { d.recipientKeyID-- }},
		{"keyids-retired", "both key ids - 1 (the retired pair)", func(d *dataMsg) { d.senderKeyID--; d.recipientKeyID-- }},
		{"counter", "counter + 1", func(d *dataMsg) { binary.BigEndian.PutUint64(d.topHalfCtr[:], ctr+1) }},
		{"counter", "counter - 1", func(d *dataMsg) {
			if ctr > 1 {
				binary.BigEndian.PutUint64(d.topHalfCtr[:], ctr-1)
			} else {
				binary.BigEndian.PutUint64(d.topHalfCtr[:], 7)
			}
		}},
		{"next-dh", "next DH key replaced", func(d *dataMsg) { d.y = bnFromInt(0x1234567) }},
		{"flag", "flag toggled", func(d *dataMsg) { d.flag ^= 1 }},
		{"ciphertext", "ciphertext of another message", func(d *dataMsg) {
			if len(st.OtherCT) > 0 {
				d.encryptedMsg = st.OtherCT
			} else {
				d.encryptedMsg = append([]byte{}, d.encryptedMsg[1:]...)
			}
		}},
		{"ciphertext", "ciphertext with the text bytes changed (malleability of CTR mode)", func(d *dataMsg) {
			c := append([]byte{}, d.encryptedMsg...)
			if len(c) > 2 {
				c[0] ^= 0x20
				c[1] ^= 0x01
			}
			d.encryptedMsg = c
		}},
		{"same", "no field changed", func(d *dataMsg) {}},
	}
	var rk []byte
	for _, k := range dm.oldMACKeys {
		rk = append(rk, k...)
	}
	keys := [][]byte{nil} // nil: MAC left alone
	seen := map[string]bool{}
	for _, k := range st.Disclosed {
		if !seen[string(k)] {
			seen[string(k)] = true
			keys = append(keys, k)
		}
	}
	keys = append(keys, bytes.Repeat([]byte{0x42}, 20), make([]byte, 20))
	// the attacker does not know which key pair a disclosed key belonged to: every small key-id pair with every
	// disclosed key, fresh counter
	maxID := dm.senderKeyID
	if dm.recipientKeyID > maxID {
		maxID = dm.recipientKeyID
	}
	for ki, k := range keys {
		if k == nil || ki > len(keys)-3 {
			continue
		}
		for i := uint32(1); i <= maxID+2; i++ {
			for j := uint32(1); j <= maxID+2; j++ {
				d := dm
				d.serializeUnsignedCache = nil
				d.senderKeyID, d.recipientKeyID = i, j
				binary.BigEndian.PutUint64(d.topHalfCtr[:], 0xfffffffffffffff0)
				unsigned := d.serializeUnsigned()
				body := append(append([]byte{}, unsigned...), c02MAC(k, hdr, unsigned)...)
				body = AppendData(body, rk)
				add("subst:keyid-sweep:mac-forged", fmt.Sprintf("key ids (%d,%d), high counter, MAC recomputed with disclosed key #%d", i, j, ki), c13B64(append(append([]byte{}, hdr...), body...)))
			}
		}
	}
	for _, s := range subs {
		for ki, k := range keys {
			d := dm
			d.serializeUnsignedCache = nil
			s.f(&d)
			unsigned := d.serializeUnsigned()
			mac := dm.authenticator
			kd := "MAC left alone"
			if k != nil {
				mac = c02MAC(k, hdr, unsigned)
				switch {
				case ki <= len(keys)-3:
					kd = fmt.Sprintf("MAC recomputed with disclosed key #%d", ki)
				default:
					kd = "MAC recomputed with an unrelated key"
				}
			}
			if s.class == "same" && k == nil {
				continue
			}
			body := append(append([]byte{}, unsigned...), mac...)
			body = AppendData(body, rk)
			cls := "subst:" + s.class + ":mac-left"
			if k != nil {
				cls = "subst:" + s.class + ":mac-forged"
			}
			add(cls, s.desc+", "+kd, c13B64(append(append([]byte{}, hdr...), body...)))
		}
	}
	return
}

type c02Case struct {
	Ver   int    `json:"version"`
	State string `json:"state"`
	Desc  string `json:"mutation"`
}

// c02Eval delivers one mutated message to a clone of the receiver and judges the result
func c02Eval(st c02State, m c02Mut) (fs []verifFinding, authentic bool) {
	rawG, _ := decode(encodedMessage(st.Msg))
	hdrG, dmG, _, _ := verifParseData(st.Msg)
	authLen := len(hdrG) + len(dmG.serializeUnsignedCache) + 20
	rawM, errM := decode(encodedMessage(m.Msg))
	// the reference verdict: authentic iff header, authenticated body and MAC are byte-identical to the genuine message
	// and the envelope is intact
	authentic = errM == nil && len(rawM) >= authLen && bytes.Equal(rawM[:authLen], rawG[:authLen]) && guessMessageType(m.Msg) == msgGuessData && m.Msg[len(m.Msg)-1] == '.'
	if authentic {
		// what follows the MAC must still be a well-formed revealed-keys field for the message to be accepted at all;
		// if it is not, both outcomes (reject as malformed / accept) are within the property
		if _, _, _, ok := verifParseData(m.Msg); !ok {
			return nil, false
		}
	}
	R := verifClone(st.W.P[st.R])
	smpBefore, msBefore := "nil", R.C.msgState
	if R.C.smp.state != nil {
		smpBefore = R.C.smp.state.identityString()
	}
	r := R.Receive(m.Msg)
	bad := func(sig, format string, a ...interface{}) {
		fs = append(fs, verifFinding{"C02:" + sig, fmt.Sprintf("%s, %s: ", st.Name, m.Desc) + fmt.Sprintf(format, a...)})
	}
	if r.Panic != "" {
		bad("panic:"+verifPanicClass(r.Panic), "%s", r.Panic)
		return
	}
	if authentic {
		switch st.Kind {
		case "text":
			if !r.HasPln || !bytes.Equal(r.Plain, st.Text) {
				bad("authentic-not-delivered:"+m.Class, "the authenticated part is untouched but Receive returned %q (err %q)", verifTrunc(r.Plain), r.Err)
			}
		default:
			if !verifAccepted(r) {
				bad("authentic-not-accepted:"+m.Class, "the authenticated part is untouched but the %s message was not acted upon (err %q, events %s)", st.Kind, r.Err, verifEventsString(r.Events))
			}
		}
		return
	}
	if r.HasPln {
		bad("forged-plaintext:"+m.Class, "Receive returned plaintext %q", verifTrunc(r.Plain))
	}
	for _, o := range r.Out {
		if !bytes.HasPrefix(o, errorMarker) {
			bad("forged-answered:"+m.Class, "Receive answered with a %s message", verifMsgKind(o))
		}
	}
	for _, ev := range r.Events {
		if ev.Kind == 'P' || ev.Kind == 'S' || ev.Kind == 'K' {
			bad("forged-tlv-applied:"+m.Class, "event %s", ev)
		}
		if ev.Kind == 'M' && MessageEvent(ev.Code) == MessageEventLogHeartbeatReceived {
			bad("forged-accepted-as-heartbeat:"+m.Class, "the message was accepted (heartbeat event)")
		}
	}
	smpAfter := "nil"
	if R.C.smp.state != nil {
		smpAfter = R.C.smp.state.identityString()
	}
	if R.C.msgState != msBefore || (smpAfter != smpBefore && !(smpBefore == "nil" && smpAfter == "SMPSTATE_EXPECT1")) {
		bad("forged-changed-state:"+m.Class, "message state %d→%d, SMP state %s→%s", msBefore, R.C.msgState, smpBefore, smpAfter)
	}
	return
}

// ---------------------------------------------------------------------------
// cleartext arriving while encryption is due: it may be handed to the user only flagged as unencrypted

type c02Clear struct {
	World string `json:"world"`
	R     int    `json:"receiver"`
	State string `json:"state"`
	Line  string `json:"line"`
	Nth   int    `json:"nth"`
	Frag  int    `json:"frag,omitempty"` // >0: the line arrives cut into that many pieces in the session's fragment format
}

func c02ClearWorlds(seed int64) map[string]*verifWorld {
	out := map[string]*verifWorld{}
	for _, v := range []int{3, 2} {
		// started by a query
		out[fmt.Sprintf("v%d/query", v)] = verifEstablished(seed, v, 0)
		// started by A's whitespace-tagged plaintext (A has offered the tag, B started the exchange)
		pol := verifPolFor(v)
		pol.add(sendWhitespaceTag)
		pol.add(whitespaceStartAKE)
		w := verifNewPair(verifPairCfg{Seed: seed, PolA: pol, PolB: pol})
		r := w.P[0].Send([]byte("tagged opener"))
		w.push(0, r.Out)
		if w.deliverAll(40, nil) && w.P[0].C.IsEncrypted() && w.P[1].C.IsEncrypted() {
			out[fmt.Sprintf("v%d/whitespace", v)] = w
		}
		// required encryption, still in plaintext
		rp := verifPolFor(v)
		rp.add(requireEncryption)
		out[fmt.Sprintf("v%d/plaintext-required", v)] = verifNewPair(verifPairCfg{Seed: seed, PolA: rp, PolB: rp})
	}
	return out
}

func c02ClearEval(w0 *verifWorld, c c02Clear) (fs []verifFinding) {
	w := w0.clone()
	switch c.State {
	case "after-traffic":
		for i := 0; i < 2; i++ {
			r := w.P[i].Send([]byte("traffic"))
			w.push(i, r.Out)
			w.deliverAll(10, nil)
		}
	case "finished":
		r := w.P[1-c.R].End()
		w.push(1-c.R, r.Out)
		w.deliverAll(10, nil)
	}
	R := w.P[c.R]
	R.Rec.take()
	due := R.C.msgState != plainText || R.C.Policies.has(requireEncryption)
	for n := 0; n <= c.Nth; n++ {
		line := []byte(c.Line)
		want := line
		if i := bytes.Index(line, refTagBase); i >= 0 {
			// the tag is the base followed by any number of 8-character version tags made of blanks and tabs
			j := i + len(refTagBase)
			for j+8 <= len(line) && verifIsWS(line[j:j+8]) {
				j += 8
			}
			want = append(append([]byte{}, line[:i]...), line[j:]...)
		}
		var r verifResult
		if c.Frag > 0 {
			ver := 3
			if strings.HasPrefix(c.World, "v2") {
				ver = 2
			}
			for _, piece := range c16XFragments(line, ver, c.Frag, R.C.theirInstanceTag, R.C.ourInstanceTag) {
				r = R.Receive(piece)
				if r.Panic != "" {
					break
				}
			}
		} else {
			r = R.Receive(line)
		}
		if r.Panic != "" {
			return []verifFinding{{"C02:panic:" + verifPanicClass(r.Panic), r.Panic}}
		}
		if n < c.Nth || !r.HasPln || !due {
			continue
		}
		flagged := false
		for _, ev := range r.Events {
			if ev.Kind == 'M' && MessageEvent(ev.Code) == MessageEventReceivedMessageUnencrypted && bytes.Equal(ev.Msg, r.Plain) {
				flagged = true
			}
		}
		if !flagged {
			fs = append(fs, verifFinding{"C02:cleartext-delivered-unflagged", fmt.Sprintf("world %s, %s (%s), injection #%d of %q: Receive returned %q without a received-unencrypted event", c.World, R.Name, c.State, n+1, c.Line, verifTrunc(r.Plain))})
		}
		if !bytes.Equal(r.Plain, want) {
			fs = append(fs, verifFinding{"C02:cleartext-altered", fmt.Sprintf("world %s, %s (%s): cleartext %q came out as %q", c.World, R.Name, c.State, c.Line, verifTrunc(r.Plain))})
		}
	}
	return
}

func c02ClearCases(worlds map[string]*verifWorld) (out []c02Clear) {
	lines := []string{"hello in the clear", "x", "line with tag" + string(refTagBase) + string(refWS("3")) + string(refWS("2")), string(refTagBase) + string(refWS("2")) + "tag first", "?OTR but not really"}
	var names []string
	for k := range worlds {
		names = append(names, k)
	}
	sort.Strings(names)
	for _, wn := range names {
		states := []string{"fresh", "after-traffic", "finished"}
		if strings.HasSuffix(wn, "plaintext-required") {
			states = []string{"fresh"}
		}
		for r := 0; r < 2; r++ {
			for _, st := range states {
				for _, l := range lines {
					for nth := 0; nth < 2; nth++ {
						out = append(out, c02Clear{wn, r, st, l, nth, 0})
						if !strings.HasSuffix(wn, "plaintext-required") && !strings.Contains(l, ",") {
							// the same cleartext inside a fragment train (one piece, three pieces)
							out = append(out, c02Clear{wn, r, st, l, nth, 1})
							if len(l) >= 6 {
								out = append(out, c02Clear{wn, r, st, l, nth, 3})
							}
						}
					}
				}
			}
		}
	}
	return
}

func init() {
	verifChecks["C02"] = &verifCheck{
		Level: "model_checking",
		ReplayCase: func(cj string, seed int64) []verifFinding {
			var cc c02Clear
			if jsonUnmarshal(cj, &cc) == nil && cc.World != "" {
				return c02ClearEval(c02ClearWorlds(seed)[cc.World], cc)
			}
			var c c02Case
			if jsonUnmarshal(cj, &c) != nil {
				return nil
			}
			for _, th := range []bool{false, true} {
				for _, st := range c02States(seed, c.Ver, th) {
					if st.Name != c.State {
						continue
					}
					for _, m := range c02Mutations(st, th) {
						if m.Desc == c.Desc {
							fs, _ := c02Eval(st, m)
							return fs
						}
					}
				}
			}
			return nil
		},
		Run: func(r *verifReport) {
			r.Rule = "session states at several ratchet positions, after bursts of three messages in a row from either side, and in a second session (v2, v3) × every kind of data message in flight (text either way, SMP, disconnect, extra key) × single deviations: EVERY raw byte position × xor {01,80,ff}, EVERY truncation length, extension by 1/4 bytes inside and after the authenticated part, consistent re-encodings (next D-H key with 1/2/7 leading zero bytes, ciphertext lengthened/shortened with its length word adjusted), base64 character substitutions, and field substitutions (key ids ±1 / retired pair, counter ±1, next DH, flag, ciphertext swapped or bit-flipped) with the MAC left alone AND recomputed under every MAC key disclosed on the wire so far (both sessions) and unrelated keys; each delivered to a clone of the receiver. Reference verdict: authentic ⇔ header+authenticated body+MAC byte-identical to the genuine message. Non-authentic ⇒ no plaintext, no data-message reply, no SMP/security/key event, message and SMP state unchanged; authentic ⇒ delivered exactly. Plus: cleartext lines (plain, whitespace-tagged, OTR-looking) injected once and twice into sessions started by query or by whitespace tag, fresh / after traffic / finished, and into plaintext conversations that require encryption: whatever Receive returns must be flagged by a received-unencrypted event carrying the same text"
			r.Assumptions = []string{"forgeries use only keys an attacker can read off the wire (disclosed MAC keys) or invent; the genuine current MAC key is used only by the unchanged control", "multi-byte changes beyond the listed field substitutions are not covered"}
			type job struct {
				st c02State
				m  c02Mut
				v  int
			}
			jobs := make(chan job, 512)
			var mu sync.Mutex
			var wg sync.WaitGroup
			classes := map[string]int64{}
			for k := 0; k < runtime.NumCPU(); k++ {
				wg.Add(1)
				go func() {
					defer wg.Done()
					for j := range jobs {
						fs, auth := c02Eval(j.st, j.m)
						mu.Lock()
						r.Evals++
						r.Transitions++
						if !auth {
							r.Nontrivial++
						} else {
							classes["authentic (must be delivered)"]++
						}
						classes[strings.SplitN(j.m.Class, ":", 3)[0]]++
						for _, f := range fs {
							r.addCase("C02", f.Sig, f.Detail, c02Case{j.v, j.st.Name, j.m.Desc})
						}
						mu.Unlock()
					}
				}()
			}
			n := 0
			for _, v := range []int{3, 2} {
				for _, st := range c02States(r.Seed, v, r.Tier == "thorough") {
					n++
					for _, m := range c02Mutations(st, r.Tier == "thorough") {
						jobs <- job{st, m, v}
					}
					if n <= 3 {
						r.sample(map[string]interface{}{"state": st.Name, "message_kind": st.Kind, "disclosed_keys_known_to_attacker": len(st.Disclosed)})
					}
				}
			}
			close(jobs)
			wg.Wait()
			// cleartext while encryption is due
			worlds := c02ClearWorlds(r.Seed)
			for _, cc := range c02ClearCases(worlds) {
				fs := c02ClearEval(worlds[cc.World], cc)
				r.Evals++
				r.Nontrivial++
				classes["cleartext-injection"]++
				for _, f := range fs {
					r.addCase("C02", f.Sig, f.Detail, cc)
				}
			}
			r.sample(map[string]interface{}{"cleartext": c02Clear{"v3/whitespace", 1, "after-traffic", "hello in the clear", 0, 0}})
			r.States = int64(n)
			r.Traces = r.Evals
			r.Extra["cases_by_family"] = classes
		},
	}
}
