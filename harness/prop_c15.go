//go:build verif

package otr3

import (
	"bytes"
	"encoding/binary"
	"fmt"
	"runtime"
	"sync"
)

// C15 — instance tags isolate conversations between client instances.

type c15Msg struct {
	Kind     string
	Snd, Rcv uint32
	Msg      []byte
}

type c15State struct {
	Name  string
	W     *verifWorld
	R     int    // which principal is the receiver under test
	Bound uint32 // reference: the peer instance the receiver is bound to according to the history (0: none yet)
}

// rewrite the instance tags of a genuine v3 message (encoded form) or fragment
func c15Retag(m []byte, snd, rcv uint32) []byte {
	if guessMessageType(m) == msgGuessFragment {
		f, ok := refParseFragment(m)
		if !ok && bytes.HasPrefix(m, []byte("?OTR|")) && bytes.IndexByte(m, ',') > 0 {
			// ill-formed remainder: only the tags are rewritten
			return append([]byte(fmt.Sprintf("?OTR|%08x|%08x", snd, rcv)), m[bytes.IndexByte(m, ','):]...)
		}
		if !ok || !f.V3 {
			return nil
		}
		return []byte(fmt.Sprintf("?OTR|%08x|%08x,%05d,%05d,%s,", snd, rcv, f.K, f.N, f.Piece))
	}
	raw, err := decode(encodedMessage(m))
	if err != nil || len(raw) < 11 {
		return nil
	}
	raw = append([]byte{}, raw...)
	binary.BigEndian.PutUint32(raw[3:], snd)
	binary.BigEndian.PutUint32(raw[7:], rcv)
	return c13B64(raw)
}

// c15States: snapshots of an honest v3 exchange, each with either side as the receiver under test
func c15States(seed int64) (states []c15State, genuine map[string][2][]byte) {
	genuine = map[string][2][]byte{} // kind → message as sent by A / by B (nil if that side never sends it here)
	// the version is fixed up-front: a fresh conversation commits to the version of the first message it sees
	// before it looks at the tags, which is negotiation (C16), not tag isolation
	w := verifNewPair(verifPairCfg{Seed: seed, PolA: verifPolFor(3), PolB: verifPolFor(3), VA: 3, VB: 3})
	gotEncoded := [2]bool{} // the party has received a well-formed OTR-encoded message from its peer
	snap := func(name string) {
		for r := 0; r < 2; r++ {
			c := w.clone()
			c.P[0].Rec.take()
			c.P[1].Rec.take()
			st := c15State{Name: fmt.Sprintf("%s/R=%c", name, 'A'+r), W: c, R: r}
			if gotEncoded[r] {
				st.Bound = w.P[1-r].C.ourInstanceTag // a binding, once learnt, lasts for the life of the conversation
			}
			states = append(states, st)
		}
	}
	note := func(from int, out [][]byte) {
		for _, o := range out {
			k := verifMsgKind(o)
			g := genuine[k]
			if g[from] == nil {
				g[from] = o
				genuine[k] = g
			}
		}
	}
	// own tags are drawn lazily: a conversation that has not sent anything yet has none, and then no non-zero
	// receiver tag is its own
	snap("fresh-untagged")
	for _, p := range w.P {
		p.C.GetOurInstanceTag()
	}
	snap("fresh")
	w.Q[1] = append(w.Q[1], w.P[0].Query())
	names := []string{"query-delivered", "commit-delivered", "dhkey-delivered", "revealsig-delivered", "encrypted"}
	for i := 0; i < 5; i++ {
		for to := 0; to < 2; to++ {
			if len(w.Q[to]) > 0 {
				m := w.pop(to)
				if bytes.HasPrefix(m, []byte("?OTR:")) {
					gotEncoded[to] = true
				}
				r := w.P[to].Receive(m)
				note(to, r.Out)
				w.push(to, r.Out)
				break
			}
		}
		snap(names[i])
	}
	// traffic both ways (data messages), then fragments
	for i := 0; i < 2; i++ {
		r := w.P[i].Send([]byte(fmt.Sprintf("text from %d", i)))
		note(i, r.Out)
		w.push(i, r.Out)
		w.deliverAll(10, func(to int, _ []byte, rr verifResult) { note(to, rr.Out) })
	}
	snap("encrypted-after-traffic")
	for i := 0; i < 2; i++ {
		w.P[i].C.SetFragmentSize(200)
		r := w.P[i].Send([]byte("fragmented"))
		w.P[i].C.SetFragmentSize(0)
		g := genuine["FRAG"]
		g[i] = r.Out[1]
		genuine["FRAG"] = g
		// not delivered: the receiver under test never saw these
	}
	// a fragmented message has just been reassembled and processed (either direction)
	for i := 0; i < 2; i++ {
		w.P[i].C.SetFragmentSize(200)
		r := w.P[i].Send([]byte("fragmented and delivered"))
		w.P[i].C.SetFragmentSize(0)
		w.push(i, r.Out)
		w.deliverAll(20, nil)
	}
	snap("encrypted-after-fragmented-message")
	e := w.P[0].End()
	w.push(0, e.Out)
	w.deliverAll(10, nil)
	snap("finished")
	return
}

var c15Quick bool

var c15SndTags = []uint32{0, 1, 0xff, 0x100, 0xfffffffe /* replaced by the peer's real tag */, 0x12345678}
var c15RcvTags = []uint32{0, 0x50, 0xfffffffd /* replaced by the receiver's own tag */, 0x23456789}

func c15Hostile(st c15State, genuine map[string][2][]byte) (out []c15Msg) {
	R := st.W.P[st.R]
	peer := st.W.P[1-st.R]
	for _, kind := range []string{"COMMIT", "DHKEY", "REVEALSIG", "SIG", "DATA", "FRAG", "BADFRAG", "CUTCOMMIT", "CUTDATA"} {
		src := kind
		switch kind {
		case "BADFRAG":
			src = "FRAG"
		case "CUTCOMMIT":
			src = "COMMIT"
		case "CUTDATA":
			src = "DATA"
		}
		g := genuine[src][1-st.R]
		if g == nil {
			g = genuine[src][st.R] // a message of that kind produced by the other role still parses
		}
		if g == nil {
			continue
		}
		switch kind {
		case "BADFRAG":
			// the header carries tags, the rest is not a fragment: non-numeric piece counter
			g = bytes.Replace(g, []byte(",00002,"), []byte(",0000x,"), 1)
			if !bytes.Contains(g, []byte(",0000x,")) {
				continue
			}
		case "CUTCOMMIT", "CUTDATA":
			// header (version, type, tags) plus three bytes of body: not a well-formed D-H Commit / data message
			raw, err := decode(encodedMessage(g))
			if err != nil || len(raw) < 14 {
				continue
			}
			g = c13B64(raw[:14])
		}
		for si, s := range c15SndTags {
			if c15Quick && si == 1 {
				continue // quick: one malformed sender tag below 0x100 besides 0 (0xff); thorough: 1 as well
			}
			if s == 0xfffffffe {
				s = peer.C.ourInstanceTag
			}
			for _, r := range c15RcvTags {
				if r == 0xfffffffd {
					r = R.C.ourInstanceTag
				}
				if m := c15Retag(g, s, r); m != nil {
					out = append(out, c15Msg{kind, s, r, m})
				}
			}
		}
	}
	return
}

// reference model of the binding
type c15Model struct {
	Own, Bound uint32
}

// classify returns "malformed", "foreign", "unbound-foreign-receiver" or "ours"
func (m *c15Model) classify(x c15Msg) string {
	if x.Snd < 0x100 || (x.Rcv > 0 && x.Rcv < 0x100) {
		return "malformed"
	}
	if x.Kind == "BADFRAG" || x.Kind == "CUTCOMMIT" || x.Kind == "CUTDATA" {
		// valid tags on something that is not a well-formed message or fragment: teaches nothing
		return "illformed"
	}
	if x.Rcv != 0 && x.Rcv != m.Own {
		if m.Bound == 0 {
			return "unbound-foreign-receiver"
		}
		return "foreign"
	}
	if m.Bound != 0 && m.Bound != x.Snd {
		return "foreign"
	}
	return "ours"
}

type c15Case struct {
	State string   `json:"state"`
	Seq   []string `json:"seq"`
}

func c15Desc(x c15Msg) string { return fmt.Sprintf("%s[%x|%x]", x.Kind, x.Snd, x.Rcv) }

// c15RunSeq applies a hostile sequence to the receiver of the state and checks every step against the model
func c15RunSeq(st c15State, seq []c15Msg, seed int64) (fs []verifFinding, classes []string) {
	w := st.W.clone()
	R := w.P[st.R]
	model := c15Model{Own: R.C.ourInstanceTag, Bound: st.Bound}
	bad := func(sig, format string, a ...interface{}) {
		var ds []string
		for _, x := range seq {
			ds = append(ds, c15Desc(x))
		}
		fs = append(fs, verifFinding{"C15:" + sig, fmt.Sprintf("state %s, sequence %v: ", st.Name, ds) + fmt.Sprintf(format, a...)})
	}
	if R.C.theirInstanceTag != st.Bound {
		bad("binding-differs-from-history", "the conversation is bound to peer instance %#x, its history says %#x", R.C.theirInstanceTag, st.Bound)
	}
	for _, x := range seq {
		class := model.classify(x)
		classes = append(classes, class)
		if class == "ours" {
			// processed like genuine traffic (binds if unbound); not a hostile step
			r := R.Receive(x.Msg)
			if r.Panic != "" {
				bad("panic:"+verifPanicClass(r.Panic), "%s", r.Panic)
			}
			if model.Bound == 0 && (R.C.theirInstanceTag != 0 || x.Kind != "DATA" && r.Err == "") {
				// a key-exchange message with valid tags that the conversation could process teaches it the peer's
				// instance; one that it turned down with an error, or a data message outside a session (which it cannot
				// even parse), may or may not (the statement says "only from", not "from every")
				model.Bound = x.Snd
			}
			if R.C.theirInstanceTag != model.Bound {
				bad("binding-differs-after-wellformed", "after well-formed %s the conversation is bound to %#x, the model to %#x", c15Desc(x), R.C.theirInstanceTag, model.Bound)
			}
			continue
		}
		boundBefore := R.C.theirInstanceTag
		h0 := verifHash(R.C)
		r := R.Receive(x.Msg)
		if r.Panic != "" {
			bad("panic:"+verifPanicClass(r.Panic), "%s", r.Panic)
			continue
		}
		if r.HasPln {
			bad(class+"-yields-plaintext", "%s %s yields plaintext %q", class, c15Desc(x), verifTrunc(r.Plain))
		}
		for _, o := range r.Out {
			if (class == "malformed" || class == "illformed") && bytes.HasPrefix(o, errorMarker) {
				continue
			}
			bad(class+"-answered:"+verifMsgKind(o), "%s %s is answered with %s", class, c15Desc(x), verifMsgKind(o))
		}
		for _, ev := range r.Events {
			if ev.Kind != 'M' && ev.Kind != 'E' {
				bad(class+"-event", "%s %s raised %s", class, c15Desc(x), ev)
			}
		}
		switch {
		case class == "unbound-foreign-receiver":
			// the statement leaves open whether a well-formed message for another receiver instance binds the peer tag
			if R.C.theirInstanceTag != boundBefore && R.C.theirInstanceTag != x.Snd {
				bad("binding-garbage", "bound to %#x after %s", R.C.theirInstanceTag, c15Desc(x))
			}
			if R.C.theirInstanceTag != 0 {
				model.Bound = R.C.theirInstanceTag
			}
			saved := R.C.theirInstanceTag
			R.C.theirInstanceTag = boundBefore
			if verifHash(R.C) != h0 {
				bad("state-changed-by-foreign", "%s changed the conversation beyond the peer tag", c15Desc(x))
			}
			R.C.theirInstanceTag = saved
		case class == "illformed":
			// what an ill-formed message from the right instance does to the session is C06's and C13's subject; here
			// it must not teach the conversation who its peer is
			if R.C.theirInstanceTag != boundBefore {
				bad("binding-changed-by-illformed", "ill-formed message %s changed the bound peer instance from %#x to %#x (Receive returned err=%q, events %s)", c15Desc(x), boundBefore, R.C.theirInstanceTag, r.Err, verifEventsString(r.Events))
				model.Bound = R.C.theirInstanceTag
			}
		default:
			if R.C.theirInstanceTag != boundBefore {
				bad("binding-changed-by-"+class, "%s message %s changed the bound peer instance from %#x to %#x", class, c15Desc(x), boundBefore, R.C.theirInstanceTag)
				model.Bound = R.C.theirInstanceTag // follow the implementation so that later steps are judged on their own
			} else if verifHash(R.C) != h0 {
				bad("state-changed-by-"+class, "%s message %s changed the conversation state", class, c15Desc(x))
			}
		}
	}
	return
}

// c15Continuation: transcript of the genuine continuation of the world (deliveries to quiescence, then a text each way)
func c15Continuation(w *verifWorld) string {
	var b bytes.Buffer
	ok := w.deliverAll(40, func(to int, m []byte, r verifResult) {
		fmt.Fprintf(&b, "%d<-%s plain=%q err=%q ev=[%s] out=%d;", to, verifMsgKind(m), r.Plain, r.Err, verifEventsString(r.Events), len(r.Out))
	})
	fmt.Fprintf(&b, "quiescent=%v encA=%v encB=%v;", ok, w.P[0].C.IsEncrypted(), w.P[1].C.IsEncrypted())
	if w.P[0].C.IsEncrypted() && w.P[1].C.IsEncrypted() {
		fmt.Fprintf(&b, "probe=%q", verifProbe(w))
	}
	return b.String()
}

func init() {
	verifChecks["C15"] = &verifCheck{
		Level: "model_checking",
		ReplayCase: func(cj string, seed int64) []verifFinding {
			var c c15Case
			if jsonUnmarshal(cj, &c) != nil {
				return nil
			}
			if c.State == "own-tag" || c.State == "extract" {
				r := &verifReport{Prop: "C15", Seed: seed, Outcomes: map[string]int64{}, Extra: map[string]interface{}{}}
				c15OwnTag(r)
				c15Extract(r)
				var fs []verifFinding
				for _, v := range r.Violations {
					fs = append(fs, verifFinding{v.Sig, v.Detail})
				}
				return fs
			}
			states, genuine := c15States(seed)
			for _, st := range states {
				if st.Name != c.State {
					continue
				}
				hs := c15Hostile(st, genuine)
				var seq []c15Msg
				for _, d := range c.Seq {
					for _, h := range hs {
						if c15Desc(h) == d {
							seq = append(seq, h)
							break
						}
					}
				}
				fs, _ := c15RunSeq(st, seq, seed)
				if len(seq) == 1 {
					if f, _ := c15Diff(st, seq[0], c15Continuation(st.W.clone())); f != nil {
						fs = append(fs, *f)
					}
				}
				return fs
			}
			return nil
		},
		Run: func(r *verifReport) {
			r.Rule = "(a) every scripted answer sequence of length ≤ 3 over {0,1,0xff,0x100,0x101,0xffffffff} to the 4-byte reads of the randomness source: own tag ≥ 0x100 and carried by every emitted v3 header; (b) receiver in each state of an honest v3 exchange (fresh before and after drawing its own tag, after each handshake step in both roles, encrypted, after traffic, right after a fragmented message was reassembled, finished) × every sequence of ≤ 2 (thorough: 3 for the first-message kinds) messages from {DH-Commit, DH-Key, Reveal-Sig, Sig, data, fragment, fragment with a non-numeric counter, D-H Commit / data message cut after 3 body bytes} × sender tag {0,1,0xff,0x100,peer,other valid} × receiver tag {0,0x50,own,other valid} built from genuine traffic; lock-step reference model of the binding; foreign/malformed messages: no plaintext, no reply except an OTR error for malformed ones, conversation state hash unchanged, binding unchanged; after every sequence that changed nothing the genuine continuation is trivially identical, after one that did the continuation is run differentially; (c) ExtractInstanceTags on every message and fragment of (b) returns exactly the tags written"
			r.Assumptions = []string{"whether a well-formed first message addressed to another receiver instance binds the peer tag is left open (both accepted)", "hostile messages are genuine messages with rewritten tags"}
			c15OwnTag(r)
			c15Extract(r)
			c15Quick = r.Tier == "quick"
			states, genuine := c15States(r.Seed)
			type job struct {
				st  c15State
				seq []c15Msg
			}
			jobs := make(chan job, 256)
			var mu sync.Mutex
			var wg sync.WaitGroup
			classCount := map[string]int64{}
			for k := 0; k < runtime.NumCPU(); k++ {
				wg.Add(1)
				go func() {
					defer wg.Done()
					for j := range jobs {
						fs, classes := c15RunSeq(j.st, j.seq, r.Seed)
						mu.Lock()
						r.Traces++
						r.Transitions += int64(len(j.seq))
						hostile := false
						for _, c := range classes {
							classCount[c]++
							if c != "ours" {
								hostile = true
							}
						}
						if hostile {
							r.Nontrivial++
						}
						for _, f := range fs {
							var ds []string
							for _, x := range j.seq {
								ds = append(ds, c15Desc(x))
							}
							r.addCase("C15", f.Sig, f.Detail, c15Case{j.st.Name, ds})
						}
						mu.Unlock()
					}
				}()
			}
			for _, st := range states {
				hs := c15Hostile(st, genuine)
				for i := range hs {
					jobs <- job{st, []c15Msg{hs[i]}}
					for j := range hs {
						if r.Tier == "quick" && (hs[j].Kind == "BADFRAG" || hs[j].Kind == "CUTCOMMIT" || hs[j].Kind == "CUTDATA") {
							continue // quick: the ill-formed carriers of valid tags come first or alone (a binding is only learnt once)
						}
						jobs <- job{st, []c15Msg{hs[i], hs[j]}}
					}
				}
			}
			close(jobs)
			wg.Wait()
			// differential continuation: hostile single messages, then the genuine continuation, vs. no prefix
			var diffs int64
			for _, st := range states {
				base := c15Continuation(st.W.clone())
				hs := c15Hostile(st, genuine)
				for _, h := range hs {
					f, done := c15Diff(st, h, base)
					if !done {
						continue
					}
					diffs++
					if f != nil {
						r.addCase("C15", f.Sig, f.Detail, c15Case{st.Name, []string{c15Desc(h)}})
					}
				}
			}
			r.States = int64(len(states))
			r.Evals = r.Traces + diffs
			r.Extra["differential_continuations"] = diffs
			r.Extra["message_classes"] = classCount
			for k, n := range classCount {
				r.Outcomes["class "+k] = n
			}
			r.sample(map[string]interface{}{"state": states[3].Name, "sequence": []string{"COMMIT[12345678|0]", "DATA[ff|50]"}})
		},
	}
}

// c15Diff: hostile message h, then the genuine continuation, compared with the continuation alone
func c15Diff(st c15State, h c15Msg, base string) (*verifFinding, bool) {
	w := st.W.clone()
	m := c15Model{Own: w.P[st.R].C.ourInstanceTag, Bound: st.Bound}
	cl := m.classify(h)
	if cl == "ours" || cl == "unbound-foreign-receiver" {
		return nil, false
	}
	if cl == "illformed" && (st.Bound == 0 || h.Snd == st.Bound) && (h.Rcv == 0 || h.Rcv == m.Own) {
		return nil, false // from the right instance: what it does to the session is not a question of isolation
	}
	w.P[st.R].Receive(h.Msg)
	got := c15Continuation(w)
	if got != base {
		return &verifFinding{"C15:continuation-differs-after-" + cl, fmt.Sprintf("state %s: after %s message %s the genuine continuation behaves differently:\n      without: %s\n      with:    %s", st.Name, cl, c15Desc(h), verifTrunc2(base, 400), verifTrunc2(got, 400))}, true
	}
	return nil, true
}

func verifTrunc2(s string, n int) string {
	if len(s) > n {
		return s[:n] + "…"
	}
	return s
}

// (a) own tag generation under scripted randomness
func c15OwnTag(r *verifReport) {
	vals := []uint32{0, 1, 0xff, 0x100, 0x101, 0xffffffff}
	n := c13EnumCount(len(vals), 3)
	for i := 0; i < n; i++ {
		ixs := c13EnumString(i, []byte{0, 1, 2, 3, 4, 5}, 3)
		p := verifNewPrincipal(verifConvCfg{Name: "T", Seed: r.Seed, Policies: verifPolFor(3), Version: 3, Key: verifKey(r.Seed, "A")})
		var script []string
		for _, ix := range ixs {
			b := make([]byte, 4)
			binary.BigEndian.PutUint32(b, vals[ix])
			p.R.Script = append(p.R.Script, b)
			script = append(script, fmt.Sprintf("%#x", vals[ix]))
		}
		tag := p.C.GetOurInstanceTag()
		r.Evals++
		if len(ixs) > 0 {
			r.Nontrivial++
		}
		if tag < 0x100 {
			r.addCase("C15", "C15:own-tag-invalid", fmt.Sprintf("randomness answers %v: own instance tag %#x", script, tag), c15Case{"own-tag", script})
			continue
		}
		// every emitted v3 header carries it
		q := []byte("?OTRv3?")
		res := p.Receive(q)
		for _, o := range res.Out {
			raw, err := decode(encodedMessage(o))
			if err != nil || len(raw) < 11 || binary.BigEndian.Uint32(raw[3:]) != tag {
				r.addCase("C15", "C15:own-tag-not-in-header", fmt.Sprintf("randomness answers %v: emitted header does not carry the own tag %#x", script, tag), c15Case{"own-tag", script})
			}
		}
		if p.C.GetOurInstanceTag() != tag {
			r.addCase("C15", "C15:own-tag-unstable", fmt.Sprintf("randomness answers %v: own tag changed", script), c15Case{"own-tag", script})
		}
	}
}

// (c) the routing helper
func c15Extract(r *verifReport) {
	states, genuine := c15States(r.Seed)
	seen := map[string]bool{}
	for _, st := range states {
		for _, h := range c15Hostile(st, genuine) {
			key := string(h.Msg)
			if seen[key] {
				continue
			}
			seen[key] = true
			ours, theirs, ok := ExtractInstanceTags(h.Msg)
			r.Evals++
			r.Nontrivial++
			if !ok || ours != h.Rcv || theirs != h.Snd {
				kind := "message"
				if h.Kind == "FRAG" {
					kind = "fragment"
				}
				r.addCase("C15", "C15:extract-wrong-tags:"+kind, fmt.Sprintf("ExtractInstanceTags of a %s carrying sender %#x receiver %#x returns ours=%#x theirs=%#x ok=%v", h.Kind, h.Snd, h.Rcv, ours, theirs, ok), c15Case{"extract", []string{c15Desc(h)}})
			}
		}
	}
	for _, m := range [][]byte{[]byte("hello"), []byte("?OTR,00001,00002,abc,"), []byte("?OTRv23?"), nil} {
		if _, _, ok := ExtractInstanceTags(m); ok {
			r.addCase("C15", "C15:extract-ok-without-tags", fmt.Sprintf("ExtractInstanceTags(%q) reports ok", m), c15Case{"extract", []string{string(m)}})
		}
		r.Evals++
	}
	// (an OTRv2 data message has no tags; what the helper says about it is not constrained here)
	r.Evals++
}
