//go:build verif

package otr3

import (
	"bytes"
	"fmt"
	"reflect"
	"strings"
)

// C08 — retired secrets and old plaintext are not retained (forward secrecy).
// The log of the randomness source gives every secret a principal ever drew (with an alias of the
// buffer it was written to); a reference lifetime model driven by observable protocol progress says
// which of them may still be alive; a reflective walk of the conversation looks for the dead ones.

type c08Secret struct {
	Ix    int    // index in the DRBG log
	Kind  string // "dh" | "ake-r" | "smp" | "tag" | "other"
	Alive bool
}

type c08Life struct {
	Seen    int // log entries classified so far
	Secrets []c08Secret
	AKE     []int // secrets of the exchange in progress (exponent, r)
	Session []int // DH exponents of the running session, oldest first (at most the last two are alive)
	SMP     []int // exponents of the SMP run in progress
}

type monC08 struct {
	L       [2]c08Life
	U       int
	NSend   [2]int
	NEnd    [2]int
	NQuery  [2]int
	NSMP    int
	NAbort  int
	Asked   [2]bool
	Markers [2][][]byte // texts given to Send, in order
	Queued  [2][]int    // indices of markers still queued for encryption
	NWalks  int
	Disc     [][]byte  // disconnect messages emitted by End() …
	DiscSSID [][8]byte // … and the session each belongs to
	// every buffer of the conversation in which a live D-H exponent has been seen (aliases, kept when the
	// conversation lets go of them): once the exponent is dead they must have been zeroed in place
	Holders [2][]c08Holder `verif:"nohash"`
}

type c08Holder struct {
	Ix   int
	Buf  []byte
	Path string // where in the conversation the copy was first seen
}

func (l *c08Life) kill(ixs []int) {
	for _, ix := range ixs {
		for k := range l.Secrets {
			if l.Secrets[k].Ix == ix {
				l.Secrets[k].Alive = false
			}
		}
	}
}

// c08Update classifies the draws made during the last call on principal p and moves lifetimes along
func c08Update(l *c08Life, p *verifPrincipal, call string, inType messageTypeGuess, r verifResult, smpLen int) {
	newDraws := []int{}
	for ix := l.Seen; ix < len(p.R.Log); ix++ {
		newDraws = append(newDraws, ix)
	}
	l.Seen = len(p.R.Log)
	outHas := func(t messageTypeGuess) bool {
		for _, o := range r.Out {
			if guessMessageType(o) == t {
				return true
			}
		}
		return false
	}
	completed := verifHasEvent(r.Events, 'S', int(GoneSecure)) || verifHasEvent(r.Events, 'S', int(StillSecure))
	ended := verifHasEvent(r.Events, 'S', int(GoneInsecure)) || call == "end" || call == "deliver-disconnect"
	smpCall := call == "smpstart" || call == "smpanswer" || (call == "deliver" && inType == msgGuessData)
	startsExchange := outHas(msgGuessDHCommit) || outHas(msgGuessDHKey)
	for _, ix := range newDraws {
		n := len(p.R.Log[ix].Out)
		s := c08Secret{Ix: ix, Kind: "other", Alive: true}
		switch {
		case n == 4:
			s.Kind = "tag"
		case n == 40 && startsExchange:
			// the exponent of a new exchange: whatever an abandoned exchange held is dead
			s.Kind = "dh"
			if !l.freshAKEInThisCall(newDraws[:indexOf(newDraws, ix)]) {
				l.kill(l.AKE)
				l.AKE = nil
			}
			l.AKE = append(l.AKE, ix)
		case n == 16 && startsExchange && outHas(msgGuessDHCommit):
			s.Kind = "ake-r"
			l.AKE = append(l.AKE, ix)
		case n == 40:
			// a ratchet key: on completion of an exchange or on rotation
			s.Kind = "dh"
			if completed {
				l.kill(l.Session)
				l.Session = nil
				for _, a := range l.AKE {
					if l.kindOf(a) == "dh" {
						l.Session = append(l.Session, a)
					} else {
						l.kill([]int{a}) // r is no longer needed
					}
				}
				l.AKE = nil
			}
			l.Session = append(l.Session, ix)
			for len(l.Session) > 2 {
				l.kill(l.Session[:1])
				l.Session = l.Session[1:]
			}
		case n == smpLen && smpCall:
			s.Kind = "smp"
			l.SMP = append(l.SMP, ix)
		}
		l.Secrets = append(l.Secrets, s)
	}
	// SMP exponents: the property's statement only demands that session secrets are gone after End() or the
	// peer's disconnect; an aborted or finished SMP run is not a key exchange. They die with the session.
	if ended {
		l.kill(l.Session)
		l.kill(l.AKE)
		l.kill(l.SMP)
		l.Session, l.AKE, l.SMP = nil, nil, nil
	}
}

func indexOf(xs []int, x int) int {
	for i, v := range xs {
		if v == x {
			return i
		}
	}
	return 0
}

func (l *c08Life) kindOf(ix int) string {
	for _, s := range l.Secrets {
		if s.Ix == ix {
			return s.Kind
		}
	}
	return ""
}

func (l *c08Life) freshAKEInThisCall(earlier []int) bool {
	for _, e := range earlier {
		for _, a := range l.AKE {
			if a == e {
				return true
			}
		}
	}
	return false
}

type c08Hit struct {
	Path string
}

// c08Walk searches the conversation's object graph (buffers to full capacity, big.Int words) for needles
func c08Walk(c *Conversation, needles map[string][]byte, live map[int][]byte, seen func(ix int, b []byte, path string)) map[string]string {
	found := map[string]string{}
	verifVisit(c, &verifVisitor{
		skip: func(t reflect.Type, field string) bool {
			// long-term keys and handlers are not session state
			return field == "ourKeys" || field == "ourCurrentKey" || field == "Rand" || strings.HasSuffix(field, "Handler")
		},
		onBytes: func(path string, b []byte) {
			for ix, n := range live {
				if len(n) > 0 && bytes.Contains(b, n) {
					seen(ix, b, path)
				}
			}
			for name, n := range needles {
				if _, ok := found[name]; !ok && len(n) > 0 && bytes.Contains(b, n) {
					found[name] = path
				}
			}
		},
	})
	return found
}

func c08Strip(b []byte) []byte {
	for len(b) > 8 && b[0] == 0 {
		b = b[1:]
	}
	return b
}

// c08Check runs the three clauses for principal i
func c08Check(w *verifWorld, i int) (fs []verifFinding) {
	m := w.Mon.(*monC08)
	p := w.P[i]
	l := &m.L[i]
	needles := map[string][]byte{}
	for _, s := range l.Secrets {
		if s.Alive || s.Kind == "tag" || s.Kind == "other" {
			continue
		}
		needles[fmt.Sprintf("%s#%d", s.Kind, s.Ix)] = c08Strip(p.R.Log[s.Ix].Out)
	}
	// old plaintext: everything but the most recent text and the ones still queued
	for k, t := range m.Markers[i] {
		if k == len(m.Markers[i])-1 {
			continue
		}
		queued := false
		for _, q := range m.Queued[i] {
			if q == k {
				queued = true
			}
		}
		if !queued {
			needles[fmt.Sprintf("text#%d", k)] = t
		}
	}
	m.NWalks++
	live := map[int][]byte{}
	for _, s := range l.Secrets {
		if s.Alive && s.Kind == "dh" {
			live[s.Ix] = c08Strip(p.R.Log[s.Ix].Out)
		}
	}
	note := func(ix int, b []byte, path string) {
		for _, h := range m.Holders[i] {
			if h.Ix == ix && len(h.Buf) > 0 && len(b) > 0 && &h.Buf[0] == &b[0] {
				return
			}
		}
		m.Holders[i] = append(m.Holders[i], c08Holder{ix, b, strings.ReplaceAll(path, "[]", "")})
	}
	for name, path := range c08Walk(p.C, needles, live, note) {
		kind := name[:strings.Index(name, "#")]
		path = strings.ReplaceAll(path, "[]", "")
		if kind == "text" {
			fs = append(fs, verifFinding{"C08:old-plaintext-retained:" + path, fmt.Sprintf("%s still holds %s (not the most recent text, not queued) at %s", p.Name, name, path)})
		} else {
			fs = append(fs, verifFinding{"C08:dead-secret-reachable:" + kind + ":" + path, fmt.Sprintf("%s: retired secret %s is still reachable at %s", p.Name, name, path)})
		}
	}
	// erasure of DH exponents and exchange secrets: the buffer they were drawn into must not hold them any more
	for _, s := range l.Secrets {
		// (the exchange secret r lives inside the exchange's own struct, not in a buffer of its own:
		// for it only the reachability clause applies)
		if s.Alive || s.Kind != "dh" {
			continue
		}
		d := p.R.Log[s.Ix]
		if bytes.Equal(d.Dst, d.Out) {
			fs = append(fs, verifFinding{"C08:dead-secret-not-erased:" + s.Kind, fmt.Sprintf("%s: the buffer that received retired secret %s#%d still holds it (reference dropped without zeroing)", p.Name, s.Kind, s.Ix)})
		}
		for _, h := range m.Holders[i] {
			if h.Ix == s.Ix && bytes.Contains(h.Buf, c08Strip(d.Out)) {
				fs = append(fs, verifFinding{"C08:dead-secret-not-erased:" + s.Kind + "-copy:" + h.Path, fmt.Sprintf("%s: the buffer at %s, which held a copy of retired secret %s#%d, still holds it (let go or kept without being zeroed)", p.Name, h.Path, s.Kind, s.Ix)})
				break
			}
		}
	}
	return
}

// id: "v<2|3>/<pol>/U<n>"
func verifC08Sys(id string, seed int64) *verifSys {
	parts := strings.Split(id, "/")
	if len(parts) != 3 {
		return nil
	}
	var v, u int
	fmt.Sscanf(parts[0], "v%d", &v)
	fmt.Sscanf(parts[2], "U%d", &u)
	pol := parts[1]
	smpLen := 192
	if v == 2 {
		smpLen = 16
	}
	sys := &verifSys{Prop: "C08", ID: id, Seed: seed}
	after := func(w *verifWorld, i int, call string, inType messageTypeGuess, r verifResult) []verifFinding {
		m := w.Mon.(*monC08)
		c08Update(&m.L[i], w.P[i], call, inType, r, smpLen)
		return c08Check(w, i)
	}
	sys.Init = func() *verifWorld {
		p := verifParsePol(fmt.Sprintf("%d%s", v, pol))
		w := verifNewPair(verifPairCfg{Seed: seed, PolA: p, PolB: p})
		w.P[0].R.Keep, w.P[1].R.Keep = true, true
		w.Mon = &monC08{U: u, NSend: [2]int{3, 3}, NEnd: [2]int{1, 1}, NQuery: [2]int{1, 1}, NSMP: 1, NAbort: 1}
		// an established session with one round trip (so that rotation has happened once)
		w.Q[1] = append(w.Q[1], w.P[0].Query())
		for step := 0; step < 40; step++ {
			moved := false
			for to := 0; to < 2; to++ {
				if len(w.Q[to]) > 0 {
					msg := w.pop(to)
					r := w.P[to].Receive(msg)
					w.push(to, r.Out)
					after(w, to, "deliver", guessMessageType(msg), r)
					moved = true
					break
				}
			}
			if !moved {
				break
			}
		}
		return w
	}
	sys.Evs = func(w *verifWorld) []verifEv {
		m := w.Mon.(*monC08)
		var evs []verifEv
		for i := 0; i < 2; i++ {
			if len(w.Q[i]) > 0 {
				evs = append(evs, verifEv{K: "deliver", I: i})
			}
		}
		if m.U <= 0 {
			return evs
		}
		for i := 0; i < 2; i++ {
			if m.NSend[i] > 0 {
				evs = append(evs, verifEv{K: "send", I: i})
			}
			if m.NEnd[i] > 0 {
				evs = append(evs, verifEv{K: "end", I: i})
			}
			if m.NQuery[i] > 0 {
				evs = append(evs, verifEv{K: "query", I: i})
			}
			if m.Asked[i] {
				evs = append(evs, verifEv{K: "smpanswer", I: i})
			}
		}
		if m.NSMP > 0 {
			evs = append(evs, verifEv{K: "smpstart", I: 0})
		}
		if m.NAbort > 0 {
			evs = append(evs, verifEv{K: "smpabort", I: 0})
		}
		return evs
	}
	sys.Apply = func(w *verifWorld, e verifEv) []verifFinding {
		m := w.Mon.(*monC08)
		p := w.P[e.I]
		var r verifResult
		var inType messageTypeGuess = -1
		call := ""
		switch e.K {
		case "deliver":
			msg := w.pop(e.I)
			inType = guessMessageType(msg)
			// the peer's disconnect for the session this side is in: from here on the session's secrets are dead,
			// whatever the conversation makes of the message
			for k, d := range m.Disc {
				if bytes.Equal(d, msg) && p.C.IsEncrypted() && p.C.ssid == m.DiscSSID[k] {
					call = "deliver-disconnect"
				}
			}
			r = p.Receive(msg)
			if r.HasPln || verifHasEvent(r.Events, 'S', int(GoneSecure)) {
				// texts queued under required encryption are released when the session starts
				m.Queued[e.I] = nil
			}
		case "send":
			m.U--
			m.NSend[e.I]--
			t := []byte(fmt.Sprintf("PLAINTEXT-MARKER-%c-%d-0123456789abcdef", 'A'+e.I, len(m.Markers[e.I])))
			wasPlain := p.C.msgState == plainText
			m.Markers[e.I] = append(m.Markers[e.I], t)
			r = p.Send(t)
			if wasPlain && p.C.Policies.has(requireEncryption) {
				m.Queued[e.I] = append(m.Queued[e.I], len(m.Markers[e.I])-1)
			}
		case "end":
			m.U--
			m.NEnd[e.I]--
			var alt []ValidMessage
			if strings.Contains(pol, "p") && p.C.IsEncrypted() {
				// the same disconnect as another implementation may write it: padding TLV first (any order is legal)
				alt, _, _ = verifClone(p).C.createSerializedDataMessage(nil, messageFlagIgnoreUnreadable, []tlv{{tlvType: tlvTypePadding, tlvLength: 5, tlvValue: make([]byte, 5)}, {tlvType: tlvTypeDisconnected}})
			}
			ssidBefore, wasEnc := p.C.ssid, p.C.IsEncrypted()
			r = p.End()
			if len(alt) == 1 && len(r.Out) == 1 {
				r.Out = [][]byte{alt[0]}
			}
			if wasEnc && len(r.Out) == 1 {
				m.Disc = append(m.Disc, append([]byte{}, r.Out[0]...))
				m.DiscSSID = append(m.DiscSSID, ssidBefore)
			}
		case "query":
			m.U--
			m.NQuery[e.I]--
			verifTick(w.P[0].C)
			verifTick(w.P[1].C)
			w.Q[1-e.I] = append(w.Q[1-e.I], p.Query())
			return nil
		case "smpstart":
			m.U--
			m.NSMP--
			r = p.StartSMP("", []byte("smp secret"))
		case "smpanswer":
			m.Asked[e.I] = false
			r = p.AnswerSMP([]byte("smp secret"))
		case "smpabort":
			m.U--
			m.NAbort--
			r = p.AbortSMP()
		}
		var fs []verifFinding
		if r.Panic != "" {
			fs = append(fs, verifFinding{"C08:panic:" + verifPanicClass(r.Panic), r.Panic})
		}
		for _, ev := range r.Events {
			if ev.Kind == 'P' && SMPEvent(ev.Code) == SMPEventAskForSecret {
				m.Asked[e.I] = true
			}
		}
		w.push(e.I, r.Out)
		if call == "" {
			call = e.K
		}
		fs = append(fs, after(w, e.I, call, inType, r)...)
		return fs
	}
	sys.Label = func(w *verifWorld) string {
		m := w.Mon.(*monC08)
		dead := 0
		for i := 0; i < 2; i++ {
			for _, s := range m.L[i].Secrets {
				if !s.Alive && s.Kind != "tag" && s.Kind != "other" {
					dead++
				}
			}
		}
		return fmt.Sprintf("A=%s B=%s dead-secrets=%d draws=%d/%d", verifMsgStateName(w.P[0].C), verifMsgStateName(w.P[1].C), dead, len(w.P[0].R.Log), len(w.P[1].R.Log))
	}
	return sys
}

func init() {
	verifChecks["C08"] = &verifCheck{
		Level: "model_checking",
		Build: verifC08Sys,
		Run: func(r *verifReport) {
			r.Rule = "explicit-state exploration of session histories from an established session (texts both ways with rotation, End on either side (configurations 'p': with the disconnect written padding-TLV-first, as another implementation may), refresh by query, one SMP run with answer or abort, all FIFO delivery interleavings, within an event budget U); after EVERY API call the log of the deterministic randomness source is classified (DH exponents, exchange secret r, SMP exponents) and a reference lifetime model driven by observable progress (messages emitted, security and SMP events) says which draws are dead; a reflective walk of the whole conversation (all buffers to full capacity, big.Int words) must not contain any dead secret nor any text given to Send other than the most recent / still queued ones, and the buffer that received a dead DH exponent, and every buffer of the conversation in which a copy of it was ever seen (aliases are kept), must have been zeroed in place"
			r.Assumptions = []string{"copies made by the Go runtime or inside crypto/dsa are out of reach (SECURITY_ASSUMPTIONS.md says the same)", "draws are classified by length and by the call they were made in; draws that cannot be classified are never reported"}
			ids := []string{"v3//U3", "v2//U3", "v3/r/U3", "v2/p/U3"}
			if r.Tier == "thorough" {
				ids = []string{"v2/r/U3", "v3/e/U3", "v3//U4", "v2//U4", "v3/r/U4", "v2/r/U4", "v3/e/U4", "v3/p/U4"} // sized to complete within the budget (U5 needs > 1.7 M states for one configuration)
			}
			for _, id := range ids {
				r.explore(verifC08Sys(id, r.Seed))
			}
		},
	}
}
