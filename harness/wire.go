//go:build verif

package otr3

import (
	"bytes"
	"crypto/cipher"
	"crypto/aes"
	"fmt"
	"crypto/sha256"
	"encoding/binary"
	"math/big"
)

// Opening data messages with the *sender's* keys right after emission (wire monitor).
// Uses only pure helpers of the package (no state is touched).

type verifDataInfo struct {
	OK             bool // parsed and decrypted
	Parsed         bool
	Version        uint16
	Flag           byte
	SenderKeyID    uint32
	RecipientKeyID uint32
	Ctr            uint64
	Y              *big.Int
	Plain          []byte
	TLVs           []tlv
	Revealed       [][]byte
	MACOK          bool
	CTROK          bool   // the standard library's AES-CTR reads the same plaintext
	Weak           bool   // the D-H secret the keys derive from is 0, 1 or p-1: computable from the wire alone
	Stream         string // identity of the AES-CTR key stream the message was enciphered with (key, counter)
	Cipher         []byte
}

func verifParseData(msg []byte) (hdr []byte, dm dataMsg, version uint16, ok bool) {
	if guessMessageType(msg) != msgGuessData {
		return
	}
	raw, err := decode(encodedMessage(msg))
	if err != nil || len(raw) < 3 {
		return
	}
	version = binary.BigEndian.Uint16(raw)
	var v otrVersion
	hl := 3
	switch version {
	case 2:
		v = otrV2{}
	case 3:
		v = otrV3{}
		hl = 11
	default:
		return
	}
	if len(raw) < hl {
		return
	}
	func() {
		defer func() { _ = recover() }()
		if e := dm.deserialize(append([]byte{}, raw[hl:]...), v); e == nil {
			ok = true
		}
	}()
	hdr = raw[:hl]
	return
}

// verifOpenOwn decrypts a data message that conversation c has just emitted.
func verifOpenOwn(c *Conversation, msg []byte) (info verifDataInfo) {
	hdr, dm, version, ok := verifParseData(msg)
	if !ok {
		return
	}
	info.Parsed = true
	info.Version = version
	info.Flag = dm.flag
	info.SenderKeyID, info.RecipientKeyID = dm.senderKeyID, dm.recipientKeyID
	info.Ctr = binary.BigEndian.Uint64(dm.topHalfCtr[:])
	info.Y = dm.y
	for _, k := range dm.oldMACKeys {
		info.Revealed = append(info.Revealed, append([]byte{}, k...))
	}
	priv, pub, err := c.keys.pickOurKeys(dm.senderKeyID)
	if err != nil || priv == nil || pub == nil {
		return
	}
	their, err := c.keys.pickTheirKey(dm.recipientKeyID)
	if err != nil || their == nil {
		return
	}
	if their.Sign() == 0 {
		info.Weak = true // the sender keys its message from g^0: a secret of 0
		return
	}
	var v otrVersion = otrV3{}
	if version == 2 {
		v = otrV2{}
	}
	if sv := modExpP(their, new(big.Int).SetBytes(priv)); sv.Cmp(big.NewInt(1)) <= 0 || sv.Cmp(pMinusTwo) > 0 {
		info.Weak = true
	}
	sk := calculateDHSessionKeys(priv, pub, their, v)
	sk.unlock()
	info.MACOK = dm.checkSign(sk.sendingMACKey, hdr, v) == nil
	p := plainDataMsg{}
	enc := append([]byte{}, dm.encryptedMsg...)
	if p.decrypt(sk.sendingAESKey, dm.topHalfCtr, enc) != nil {
		return
	}
	info.OK = true
	// the same ciphertext through the standard library's AES-CTR (initial counter = top half, low half zero): what the
	// package calls encryption must be exactly that
	if blk, err := aes.NewCipher(sk.sendingAESKey); err == nil {
		iv := make([]byte, 16)
		copy(iv, dm.topHalfCtr[:])
		ind := make([]byte, len(dm.encryptedMsg))
		cipher.NewCTR(blk, iv).XORKeyStream(ind, dm.encryptedMsg)
		q := plainDataMsg{}
		q.deserialize(ind)
		info.CTROK = bytes.Equal(q.message, p.message) && len(q.tlvs) == len(p.tlvs)
	}
	info.Plain = append([]byte{}, p.message...)
	info.TLVs = p.tlvs
	ks := sha256.Sum256(append(append([]byte{}, sk.sendingAESKey...), dm.topHalfCtr[:]...))
	info.Stream = fmt.Sprintf("%x", ks[:12])
	info.Cipher = append([]byte{}, dm.encryptedMsg...)
	return
}
