//go:build verif

package otr3

import (
	"io"
	"bytes"
	"crypto/dsa"
	"crypto/sha1"
	"encoding/binary"
	"fmt"
	"math/big"
	"strings"
)

// C17 — every protocol structure and key survives serialisation round trips.
// Exhaustive small-domain enumeration (full products of boundary values).

type c17Run struct {
	r      *verifReport
	evals  int64
	nontr  int64
	seenOK map[string]bool
}

func (x *c17Run) bad(sig, format string, a ...interface{}) {
	d := fmt.Sprintf(format, a...)
	x.r.addCase("C17", "C17:"+sig, d, map[string]string{"case": d})
}

func (x *c17Run) tick(nontrivial bool) {
	x.evals++
	if nontrivial {
		x.nontr++
	}
}

func c17ByteStrings() [][]byte {
	var out [][]byte
	for _, l := range []int{0, 1, 2, 255, 256, 65535, 65536} {
		b := make([]byte, l)
		for i := range b {
			b[i] = byte(i*7 + l)
		}
		if l > 0 {
			b[0] = 0 // leading zero byte must survive in DATA (not in MPI)
		}
		out = append(out, b)
	}
	return out
}

func c17Ints() []*big.Int {
	var out []*big.Int
	for _, s := range []string{"0", "1", "7f", "80", "ff", "100", "ffffffffffffffff", "10000000000000000"} {
		v, _ := new(big.Int).SetString(s, 16)
		out = append(out, v)
	}
	out = append(out, new(big.Int).Sub(p, big.NewInt(1)), new(big.Int).Set(p), new(big.Int).Lsh(big.NewInt(1), 1535))
	return out
}

func c17MinimalMPI(b []byte) (ok bool, why string) {
	// b is the serialisation of exactly one MPI
	if len(b) < 4 {
		return false, "shorter than a length prefix"
	}
	n := binary.BigEndian.Uint32(b)
	if int(n) != len(b)-4 {
		return false, fmt.Sprintf("length prefix %d for %d content bytes", n, len(b)-4)
	}
	if n > 0 && b[4] == 0 {
		return false, "leading zero byte"
	}
	return true, ""
}

func (x *c17Run) primitives() {
	for _, v := range []uint16{0, 1, 0x7f, 0x80, 0xff, 0x100, 0xffff} {
		b := AppendShort([]byte{9}, v)
		rest, got, ok := ExtractShort(b[1:])
		if !ok || got != v || len(rest) != 0 || len(b) != 3 {
			x.bad("short", "AppendShort/ExtractShort of %#x gives %#x ok=%v rest=%d", v, got, ok, len(rest))
		}
		x.tick(true)
	}
	for _, v := range []uint32{0, 1, 0xff, 0x100, 0xffff, 0x10000, 0x7fffffff, 0x80000000, 0xffffffff} {
		b := AppendWord(nil, v)
		rest, got, ok := ExtractWord(b)
		if !ok || got != v || len(rest) != 0 || len(b) != 4 {
			x.bad("word", "AppendWord/ExtractWord of %#x gives %#x", v, got)
		}
		x.tick(true)
	}
	for _, v := range []uint64{0, 1, 0xffffffff, 0x100000000, 0x7fffffffffffffff, 0x8000000000000000, 0xffffffffffffffff} {
		b := AppendLong(nil, v)
		rest, got, ok := ExtractLong(b)
		if !ok || got != v || len(rest) != 0 || len(b) != 8 {
			x.bad("long", "AppendLong/ExtractLong of %#x gives %#x", v, got)
		}
		x.tick(true)
	}
	for _, d := range c17ByteStrings() {
		for _, tail := range [][]byte{nil, {1, 2, 3}} {
			b := append(AppendData(nil, d), tail...)
			rest, got, ok := ExtractData(b)
			if !ok || !bytes.Equal(got, d) || !bytes.Equal(rest, tail) || binary.BigEndian.Uint32(b) != uint32(len(d)) {
				x.bad("data", "AppendData/ExtractData of %d bytes: ok=%v equal=%v rest=%d", len(d), ok, bytes.Equal(got, d), len(rest))
			}
			x.tick(len(d) > 0)
		}
	}
	for _, v := range c17Ints() {
		b := AppendMPI(nil, v)
		if ok, why := c17MinimalMPI(b); !ok {
			x.bad("mpi-not-minimal", "AppendMPI(%x): %s", v, why)
		}
		rest, got, ok := ExtractMPI(append(append([]byte{}, b...), 7))
		if !ok || got.Cmp(v) != 0 || len(rest) != 1 {
			x.bad("mpi", "AppendMPI/ExtractMPI of %x gives %v ok=%v", v, got, ok)
		}
		// leading-zero encodings are accepted and re-serialise minimally to the same value
		lz := AppendData(nil, append([]byte{0, 0}, v.Bytes()...))
		_, got2, ok2 := ExtractMPI(lz)
		if !ok2 || got2.Cmp(v) != 0 {
			x.bad("mpi-leading-zero", "ExtractMPI of a leading-zero encoding of %x gives %v", v, got2)
		} else if _, got3, ok3 := ExtractMPI(AppendMPI(nil, got2)); !ok3 || got3.Cmp(got2) != 0 {
			x.bad("mpi-reserialise", "re-serialising the parsed value of %x changes it", v)
		}
		x.tick(v.Sign() > 0)
	}
	ints := c17Ints()
	for n := 0; n <= 3; n++ {
		for i := range ints {
			var vs []*big.Int
			for k := 0; k < n; k++ {
				vs = append(vs, ints[(i+k*3)%len(ints)])
			}
			b := AppendMPIs(AppendWord(nil, uint32(n)), vs...)
			rest, got, ok := ExtractMPIs(b)
			if !ok || len(got) != n || len(rest) != 0 {
				x.bad("mpis", "ExtractMPIs of %d values: ok=%v n=%d", n, ok, len(got))
				continue
			}
			for k := range got {
				if got[k].Cmp(vs[k]) != 0 {
					x.bad("mpis", "ExtractMPIs value %d differs", k)
				}
			}
			x.tick(n > 0)
		}
	}
}

func (x *c17Run) akeMessages() {
	bs := c17ByteStrings()
	for _, a := range bs {
		for _, b := range bs {
			m := dhCommit{encryptedGx: a, yhashedGx: b}
			ser := m.serialize()
			var back dhCommit
			if err := back.deserialize(ser); err != nil || !bytes.Equal(back.encryptedGx, a) || !bytes.Equal(back.yhashedGx, b) {
				x.bad("dhCommit", "round trip of dhCommit(%d,%d bytes) fails: %v", len(a), len(b), err)
			}
			if len(ser) != 8+len(a)+len(b) {
				x.bad("dhCommit-length", "dhCommit(%d,%d) serialises to %d bytes", len(a), len(b), len(ser))
			}
			x.tick(len(a)+len(b) > 0)
		}
	}
	for _, v := range c17Ints() {
		m := dhKey{gy: v}
		ser := m.serialize()
		var back dhKey
		if err := back.deserialize(ser); err != nil || back.gy.Cmp(v) != 0 {
			x.bad("dhKey", "round trip of dhKey(%x) fails", v)
		}
		if ok, why := c17MinimalMPI(ser); !ok {
			x.bad("dhKey-not-minimal", "dhKey(%x): %s", v, why)
		}
		x.tick(true)
	}
	mac := make([]byte, 20)
	for i := range mac {
		mac[i] = byte(0xa0 + i)
	}
	var r16 [16]byte
	for i := range r16 {
		r16[i] = byte(i)
	}
	for _, v := range []otrVersion{otrV2{}, otrV3{}} {
		for _, e := range bs {
			// the sender keeps the encrypted signature with its length prefix
			m := revealSig{r: r16, encryptedSig: AppendData(nil, e), macSig: append(append([]byte{}, mac...), 1, 2, 3, 4, 5, 6, 7, 8, 9, 10, 11, 12)}
			ser := m.serialize(v)
			var back revealSig
			if err := back.deserialize(ser, v); err != nil || back.r != r16 || !bytes.Equal(back.encryptedSig, e) || !bytes.Equal(back.macSig, mac) {
				x.bad("revealSig", "round trip of revealSig(%d bytes) fails: %v", len(e), err)
			}
			if len(ser) != 4+16+4+len(e)+20 {
				x.bad("revealSig-length", "revealSig(%d) serialises to %d bytes", len(e), len(ser))
			}
			s := sig{encryptedSig: AppendData(nil, e), macSig: append(append([]byte{}, mac...), 1, 2, 3, 4, 5, 6, 7, 8, 9, 10, 11, 12)}
			ser2 := s.serialize(v)
			var back2 sig
			if err := back2.deserialize(ser2); err != nil || !bytes.Equal(back2.encryptedSig, e) || !bytes.Equal(back2.macSig, mac) {
				x.bad("sig", "round trip of sig(%d bytes) fails: %v", len(e), err)
			}
			x.tick(len(e) > 0)
		}
	}
}

func (x *c17Run) dataMessages() {
	bs := c17ByteStrings()
	mac := bytes.Repeat([]byte{0x5a}, 20)
	for _, v := range []otrVersion{otrV2{}, otrV3{}} {
		for _, flag := range []byte{0, 1, 0xff} {
			for _, kid := range [][2]uint32{{1, 1}, {0, 0xffffffff}, {0x80000000, 2}} {
				for _, y := range c17Ints() {
					for _, ctr := range []uint64{1, 0xff, 0x100000000, 0xffffffffffffffff} {
						for bi, enc := range bs {
							for nk := 0; nk <= 3; nk++ {
								if bi > 2 && nk > 1 {
									continue
								}
								m := dataMsg{flag: flag, senderKeyID: kid[0], recipientKeyID: kid[1], y: y, encryptedMsg: enc, authenticator: mac}
								binary.BigEndian.PutUint64(m.topHalfCtr[:], ctr)
								for k := 0; k < nk; k++ {
									m.oldMACKeys = append(m.oldMACKeys, bytes.Repeat([]byte{byte(k + 1)}, 20))
								}
								ser := m.serialize(v)
								var back dataMsg
								err := back.deserialize(ser, v)
								okv := err == nil && back.flag == flag && back.senderKeyID == kid[0] && back.recipientKeyID == kid[1] && back.y.Cmp(y) == 0 &&
									back.topHalfCtr == m.topHalfCtr && bytes.Equal(back.encryptedMsg, enc) && bytes.Equal(back.authenticator, mac) && len(back.oldMACKeys) == nk
								for k := 0; okv && k < nk; k++ {
									okv = bytes.Equal(back.oldMACKeys[k], m.oldMACKeys[k])
								}
								if !okv {
									x.bad("dataMsg", "round trip of dataMsg(flag=%d kid=%v y=%x ctr=%x enc=%dB keys=%d) fails: %v", flag, kid, y, ctr, len(enc), nk, err)
								}
								// bytes → value → bytes
								if err == nil && !bytes.Equal(back.serialize(v), ser) {
									x.bad("dataMsg-reserialise", "re-serialising a parsed dataMsg changes its bytes (enc=%dB keys=%d)", len(enc), nk)
								}
								x.tick(true)
							}
						}
					}
				}
			}
		}
	}
	// TLVs and the plaintext layer
	var values [][]byte
	for _, l := range []int{0, 1, 2, 255, 256, 65535} {
		values = append(values, bytes.Repeat([]byte{byte(l + 1)}, l))
	}
	for ty := uint16(0); ty <= 9; ty++ {
		for _, val := range values {
			t := tlv{tlvType: ty, tlvLength: uint16(len(val)), tlvValue: val}
			ser := t.serialize()
			var back tlv
			if err := back.deserialize(ser); err != nil || back.tlvType != ty || int(back.tlvLength) != len(val) || !bytes.Equal(back.tlvValue, val) {
				x.bad("tlv", "round trip of tlv(type %d, %d bytes) fails: %v", ty, len(val), err)
			}
			if len(ser) != 4+len(val) {
				x.bad("tlv-length", "tlv(type %d, %d bytes) serialises to %d bytes", ty, len(val), len(ser))
			}
			x.tick(len(val) > 0)
		}
	}
	texts := [][]byte{nil, []byte("a"), bytes.Repeat([]byte{0xff}, 255), bytes.Repeat([]byte("x"), 256), bytes.Repeat([]byte("y"), 70000)}
	small := values[:4]
	for _, txt := range texts {
		for n := 0; n <= 3; n++ {
			for ty := uint16(0); ty <= 9; ty++ {
				var ts []tlv
				for k := 0; k < n; k++ {
					val := small[(int(ty)+k)%len(small)]
					ts = append(ts, tlv{tlvType: (ty + uint16(k)*3) % 10, tlvLength: uint16(len(val)), tlvValue: val})
				}
				pm := plainDataMsg{message: append([]byte{}, txt...), tlvs: ts}
				ser := pm.serialize()
				var back plainDataMsg
				err := back.deserialize(ser)
				okv := err == nil && bytes.Equal(back.message, txt) && len(back.tlvs) == n
				for k := 0; okv && k < n; k++ {
					okv = back.tlvs[k].tlvType == ts[k].tlvType && bytes.Equal(back.tlvs[k].tlvValue, ts[k].tlvValue) && back.tlvs[k].tlvLength == ts[k].tlvLength
				}
				if !okv {
					x.bad("plainDataMsg", "round trip of plaintext(%d bytes, %d TLVs from type %d) fails: %v", len(txt), n, ty, err)
				}
				// padded form: multiple of 256, still parses to the same text and TLVs (+ padding TLV)
				pad := plainDataMsg{message: append([]byte{}, txt...), tlvs: append([]tlv{}, ts...)}.pad().serialize()
				var back2 plainDataMsg
				if err := back2.deserialize(pad); err != nil || !bytes.Equal(back2.message, txt) || len(back2.tlvs) != n+1 {
					x.bad("plainDataMsg-padded", "padded plaintext(%d bytes, %d TLVs) does not parse back: %v", len(txt), n, err)
				}
				x.tick(n > 0 || len(txt) > 0)
			}
		}
	}
}

func (x *c17Run) smpMessages() {
	ints := c17Ints()
	pick := func(i int) *big.Int { return ints[i%len(ints)] }
	for i := range ints {
		for _, q := range []string{"", "q", strings.Repeat("Q", 300), "with spaces and ünïcode"} {
			m1 := smp1Message{g2a: pick(i), c2: pick(i + 1), d2: pick(i + 2), g3a: pick(i + 3), c3: pick(i + 4), d3: pick(i + 5), hasQuestion: q != "", question: q}
			t := m1.tlv()
			if int(t.tlvLength) != len(t.tlvValue) {
				x.bad("smp1-tlv-length", "SMP1 TLV length %d for %d bytes (question %d bytes)", t.tlvLength, len(t.tlvValue), len(q))
			}
			back, ok := t.smpMessage()
			b1, isM1 := back.(smp1Message)
			if !ok || !isM1 || b1.g2a.Cmp(m1.g2a) != 0 || b1.c2.Cmp(m1.c2) != 0 || b1.d2.Cmp(m1.d2) != 0 || b1.g3a.Cmp(m1.g3a) != 0 || b1.c3.Cmp(m1.c3) != 0 || b1.d3.Cmp(m1.d3) != 0 || b1.hasQuestion != m1.hasQuestion || b1.question != m1.question {
				x.bad("smp1", "round trip of SMP1 (question %q, values from %d) fails", verifTrunc([]byte(q)), i)
			}
			x.tick(true)
		}
		m2 := smp2Message{g2b: pick(i), c2: pick(i + 1), d2: pick(i + 2), g3b: pick(i + 3), c3: pick(i + 4), d3: pick(i + 5), pb: pick(i + 6), qb: pick(i + 7), cp: pick(i + 8), d5: pick(i + 9), d6: pick(i + 10)}
		if back, ok := m2.tlv().smpMessage(); !ok {
			x.bad("smp2", "SMP2 does not parse back")
		} else {
			b := back.(smp2Message)
			if b.g2b.Cmp(m2.g2b) != 0 || b.c2.Cmp(m2.c2) != 0 || b.d2.Cmp(m2.d2) != 0 || b.g3b.Cmp(m2.g3b) != 0 || b.c3.Cmp(m2.c3) != 0 || b.d3.Cmp(m2.d3) != 0 || b.pb.Cmp(m2.pb) != 0 || b.qb.Cmp(m2.qb) != 0 || b.cp.Cmp(m2.cp) != 0 || b.d5.Cmp(m2.d5) != 0 || b.d6.Cmp(m2.d6) != 0 {
				x.bad("smp2", "round trip of SMP2 (values from %d) fails", i)
			}
		}
		m3 := smp3Message{pa: pick(i), qa: pick(i + 1), cp: pick(i + 2), d5: pick(i + 3), d6: pick(i + 4), ra: pick(i + 5), cr: pick(i + 6), d7: pick(i + 7)}
		if back, ok := m3.tlv().smpMessage(); !ok {
			x.bad("smp3", "SMP3 does not parse back")
		} else {
			b := back.(smp3Message)
			if b.pa.Cmp(m3.pa) != 0 || b.qa.Cmp(m3.qa) != 0 || b.cp.Cmp(m3.cp) != 0 || b.d5.Cmp(m3.d5) != 0 || b.d6.Cmp(m3.d6) != 0 || b.ra.Cmp(m3.ra) != 0 || b.cr.Cmp(m3.cr) != 0 || b.d7.Cmp(m3.d7) != 0 {
				x.bad("smp3", "round trip of SMP3 (values from %d) fails", i)
			}
		}
		m4 := smp4Message{rb: pick(i), cr: pick(i + 1), d7: pick(i + 2)}
		if back, ok := m4.tlv().smpMessage(); !ok {
			x.bad("smp4", "SMP4 does not parse back")
		} else {
			b := back.(smp4Message)
			if b.rb.Cmp(m4.rb) != 0 || b.cr.Cmp(m4.cr) != 0 || b.d7.Cmp(m4.d7) != 0 {
				x.bad("smp4", "round trip of SMP4 (values from %d) fails", i)
			}
		}
		x.tick(true)
	}
}

// apiLengths: through the public API, a payload that does not fit a TLV is either refused or
// emitted with a length field that matches its content
func (x *c17Run) apiLengths(seed int64) {
	for _, v := range []int{2, 3} {
		w := verifEstablished(seed, v, 0)
		for _, ql := range []int{0, 1, 300, 60000, 64000, 65000, 65535, 65536, 70000} {
			a := verifClone(w.P[0])
			q := strings.Repeat("q", ql)
			r := a.StartSMP(q, []byte("s"))
			if r.Panic != "" {
				x.bad("smp-question-panic", "StartAuthenticate with a %d-byte question panicked: %s", ql, r.Panic)
			}
			if r.Err != "" {
				if len(r.Out) != 0 {
					x.bad("smp-question-error-with-output", "StartAuthenticate with a %d-byte question failed but emitted messages", ql)
				}
				x.tick(ql > 60000)
				continue
			}
			for _, o := range r.Out {
				info := verifOpenOwn(a.C, o)
				if !info.OK {
					x.bad("smp-question-unreadable", "StartAuthenticate with a %d-byte question emitted a data message that does not parse", ql)
					continue
				}
				found := false
				for _, t := range info.TLVs {
					if int(t.tlvLength) != len(t.tlvValue) {
						x.bad("smp1-tlv-length", "v%d: %d-byte question: TLV length field %d for %d bytes", v, ql, t.tlvLength, len(t.tlvValue))
					}
					if t.tlvType == tlvTypeSMP1WithQuestion || t.tlvType == tlvTypeSMP1 {
						m, ok := t.smpMessage()
						if !ok || m.(smp1Message).question != q {
							x.bad("smp1-question-lost", "v%d: a %d-byte question does not survive the wire", v, ql)
						}
						found = true
					}
				}
				if !found {
					x.bad("smp1-missing", "v%d: no SMP1 TLV in the emitted message for a %d-byte question", v, ql)
				}
			}
			x.tick(true)
		}
		for _, ul := range []int{0, 1, 300, 65000, 65531, 65532, 65535, 65536, 70000} {
			a := verifClone(w.P[0])
			ud := bytes.Repeat([]byte{0x41}, ul)
			r := a.ExtraKey(0x01020304, ud)
			if r.Panic != "" {
				x.bad("extrakey-panic", "UseExtraSymmetricKey with %d bytes of usage data panicked: %s", ul, r.Panic)
			}
			if r.Err != "" {
				x.tick(ul > 65000)
				continue
			}
			for _, o := range r.Out {
				info := verifOpenOwn(a.C, o)
				ok := info.OK
				for _, t := range info.TLVs {
					if int(t.tlvLength) != len(t.tlvValue) {
						x.bad("extrakey-tlv-length", "v%d: %d bytes of usage data: TLV length field %d for %d bytes", v, ul, t.tlvLength, len(t.tlvValue))
					}
					if t.tlvType == tlvTypeExtraSymmetricKey && (len(t.tlvValue) != 4+ul || !bytes.Equal(t.tlvValue[4:], ud)) {
						ok = false
					}
				}
				if !ok {
					x.bad("extrakey-data-lost", "v%d: %d bytes of usage data do not survive the wire", v, ul)
				}
			}
			x.tick(true)
		}
	}
}

// refFingerprint: SHA-1 over p, q, g, y as MPIs (the key-type tag is not hashed for DSA)
func refFingerprint(k *dsa.PublicKey) []byte {
	h := sha1.New()
	for _, v := range []*big.Int{k.P, k.Q, k.G, k.Y} {
		b := v.Bytes()
		var l [4]byte
		binary.BigEndian.PutUint32(l[:], uint32(len(b)))
		h.Write(l[:])
		h.Write(b)
	}
	return h.Sum(nil)
}

// c17Keys derives DSA keys (same parameters) whose x / y hit the awkward encodings
func c17Keys(seed int64) (keys []*DSAPrivateKey, kinds []string) {
	base := verifKey(seed, "A")
	d := verifNewDRBG(seed, "c17-keys")
	want := map[string]func(x, y *big.Int) bool{
		"y-top-nibble-zero": func(x, y *big.Int) bool { return len(fmt.Sprintf("%X", y))%2 == 1 },
		"x-top-nibble-zero": func(x, y *big.Int) bool { return len(fmt.Sprintf("%X", x))%2 == 1 },
		"y-top-byte-zero":   func(x, y *big.Int) bool { return len(y.Bytes()) < len(base.PrivateKey.P.Bytes()) },
		"x-top-byte-zero":   func(x, y *big.Int) bool { return len(x.Bytes()) < 20 },
		"x-zero-byte-inside": func(x, y *big.Int) bool {
			b := x.Bytes()
			return len(b) == 20 && bytes.IndexByte(b[1:], 0) >= 0
		},
		"y-high-bit-set": func(x, y *big.Int) bool { return y.BitLen()%8 == 0 },
		"ordinary":       func(x, y *big.Int) bool { return true },
	}
	order := []string{"ordinary", "y-high-bit-set", "y-top-nibble-zero", "x-top-nibble-zero", "x-zero-byte-inside", "x-top-byte-zero", "y-top-byte-zero"}
	found := map[string]bool{}
	for tries := 0; tries < 4000 && len(found) < len(order); tries++ {
		buf := make([]byte, 20)
		d.Read(buf)
		xv := new(big.Int).SetBytes(buf)
		xv.Mod(xv, base.PrivateKey.Q)
		if xv.Sign() == 0 {
			continue
		}
		yv := new(big.Int).Exp(base.PrivateKey.G, xv, base.PrivateKey.P)
		for _, name := range order {
			if !found[name] && want[name](xv, yv) {
				found[name] = true
				k := &DSAPrivateKey{}
				k.PrivateKey.Parameters = base.PrivateKey.Parameters
				k.PrivateKey.X, k.PrivateKey.Y = xv, yv
				k.DSAPublicKey.PublicKey = k.PrivateKey.PublicKey
				keys = append(keys, k)
				kinds = append(kinds, name)
				break
			}
		}
	}
	return
}

func c17SameKey(a, b *DSAPrivateKey) bool {
	return a.PrivateKey.P.Cmp(b.PrivateKey.P) == 0 && a.PrivateKey.Q.Cmp(b.PrivateKey.Q) == 0 && a.PrivateKey.G.Cmp(b.PrivateKey.G) == 0 &&
		a.PrivateKey.Y.Cmp(b.PrivateKey.Y) == 0 && a.PrivateKey.X.Cmp(b.PrivateKey.X) == 0 &&
		a.DSAPublicKey.Y.Cmp(b.DSAPublicKey.Y) == 0 && a.DSAPublicKey.P.Cmp(b.DSAPublicKey.P) == 0
}

func (x *c17Run) keys(seed int64, thorough bool) {
	keys, kinds := c17Keys(seed)
	x.r.Extra["key_kinds"] = kinds
	for ki, k := range keys {
		kind := kinds[ki]
		// wire form
		ser := k.Serialize()
		rest, ok, back := ParsePrivateKey(append(append([]byte{}, ser...), 0xee))
		if !ok || len(rest) != 1 || !c17SameKey(back.(*DSAPrivateKey), k) {
			x.bad("privkey-wire:"+kind, "ParsePrivateKey(Serialize(k)) differs for a key with %s", kind)
		}
		pser := k.PublicKey().serialize()
		rest2, ok2, pback := ParsePublicKey(append(append([]byte{}, pser...), 0xee))
		if !ok2 || len(rest2) != 1 || pback.(*DSAPublicKey).Y.Cmp(k.PrivateKey.Y) != 0 || !bytes.Equal(pback.serialize(), pser) {
			x.bad("pubkey-wire:"+kind, "ParsePublicKey(serialize(k)) differs for a key with %s", kind)
		}
		if !bytes.Equal(k.PublicKey().Fingerprint(), refFingerprint(&k.PrivateKey.PublicKey)) {
			x.bad("fingerprint:"+kind, "Fingerprint differs from SHA-1 over the specification's layout for a key with %s", kind)
		}
		if ok2 && !bytes.Equal(pback.Fingerprint(), k.PublicKey().Fingerprint()) {
			x.bad("fingerprint-after-parse:"+kind, "fingerprint changes over a wire round trip (%s)", kind)
		}
		x.tick(true)
		// libotr key file
		var buf bytes.Buffer
		exportAccounts([]*Account{{Name: "n", Protocol: "p", Key: k}}, &buf)
		imp := &DSAPrivateKey{}
		if !imp.Import(buf.Bytes()) || !c17SameKey(imp, k) {
			x.bad("import-of-export:"+kind, "DSAPrivateKey.Import does not read back the key file text that ExportKeys writes for a key with %s", kind)
		}
		x.tick(true)
	}
	// signatures: the wire form is r and s as two 20-byte big-endian fields whatever their magnitude. The nonce is
	// scripted and the digest solved for, so that s (and, by search over the nonce, r) takes every byte length 1 … 20
	x.signatures(keys[0], thorough)
	// several serialisations alive at the same time: what was handed out for one key must not change when another
	// key is serialised or fingerprinted afterwards
	{
		var pubs, privs, fps [][]byte
		for _, k := range keys {
			pubs = append(pubs, k.PublicKey().serialize())
			privs = append(privs, k.Serialize())
			fps = append(fps, k.PublicKey().Fingerprint())
		}
		for ki, k := range keys {
			_, ok, pb := ParsePublicKey(pubs[ki])
			if !ok || pb.(*DSAPublicKey).Y.Cmp(k.PrivateKey.Y) != 0 {
				x.bad("pubkey-wire:held", "the serialisation of public key %d (%s), held while the other keys were serialised, no longer parses back to that key", ki, kinds[ki])
			}
			_, ok2, pv := ParsePrivateKey(privs[ki])
			if !ok2 || !c17SameKey(pv.(*DSAPrivateKey), k) {
				x.bad("privkey-wire:held", "the serialisation of private key %d (%s), held while the other keys were serialised, no longer parses back to that key", ki, kinds[ki])
			}
			if !bytes.Equal(fps[ki], refFingerprint(&k.PrivateKey.PublicKey)) {
				x.bad("fingerprint:held", "the fingerprint of key %d (%s), held while other keys were fingerprinted, changed", ki, kinds[ki])
			}
			x.tick(true)
		}
	}
	// account names and protocols
	nameAlpha := []byte("aZ9@.-_/+ ~:\\\t\x01%\xc3\xa9\xe2\x80\x8d") // incl. backslash, TAB, a control character, %, and the bytes of é and of U+200D
	maxLen := 2
	if thorough {
		maxLen = 3
	}
	nNames := c13EnumCount(len(nameAlpha), maxLen)
	protos := []string{"prpl-jabber", "libpurple-Jabberx", "p", "a.b_c/d+e@f:g"}
	for i := 0; i < nNames; i++ {
		name := string(c13EnumString(i, nameAlpha, maxLen))
		k := keys[i%len(keys)]
		proto := protos[i%len(protos)]
		nacc := 1 + i%3
		var accs []*Account
		for a := 0; a < nacc; a++ {
			accs = append(accs, &Account{Name: name + strings.Repeat("x", a), Protocol: proto, Key: keys[(i+a)%len(keys)]})
		}
		_ = k
		var buf bytes.Buffer
		exportAccounts(accs, &buf)
		back, err := ImportKeys(bytes.NewReader(buf.Bytes()))
		okv := err == nil && len(back) == nacc
		for a := 0; okv && a < nacc; a++ {
			bk, isDSA := back[a].Key.(*DSAPrivateKey)
			okv = back[a].Name == accs[a].Name && back[a].Protocol == accs[a].Protocol && isDSA && c17SameKey(bk, accs[a].Key.(*DSAPrivateKey))
		}
		if !okv {
			x.bad("keyfile-roundtrip", "ImportKeys(ExportKeys(x)) differs for %d account(s) named %q protocol %q: %v", nacc, name, proto, err)
		}
		x.tick(len(name) > 0)
	}
	// long key files: the reader works through a 4096-byte buffer, so every token of an account entry is slid over
	// every buffer boundary by growing the first account name one character at a time; and every way the underlying
	// reader may cut the file into chunks of a fixed size
	sameAccounts := func(back, accs []*Account, err error) bool {
		okv := err == nil && len(back) == len(accs)
		for a := 0; okv && a < len(accs); a++ {
			bk, isDSA := back[a].Key.(*DSAPrivateKey)
			okv = back[a].Name == accs[a].Name && back[a].Protocol == accs[a].Protocol && isDSA && c17SameKey(bk, accs[a].Key.(*DSAPrivateKey))
		}
		return okv
	}
	var one bytes.Buffer
	exportAccounts([]*Account{{Name: "a", Protocol: "prpl-jabber", Key: keys[0]}}, &one)
	entry := one.Len()
	counts := []int{6}
	if thorough {
		counts = []int{6, 11, 16}
	}
	slid := 0
	for _, nacc := range counts {
		for pad := 0; pad <= entry+8; pad++ {
			var accs []*Account
			for a := 0; a < nacc; a++ {
				name := fmt.Sprintf("acc%d@example.org", a)
				if a == 0 {
					name = "a" + strings.Repeat("x", pad)
				}
				accs = append(accs, &Account{Name: name, Protocol: "prpl-jabber", Key: keys[(a+pad)%len(keys)]})
			}
			var buf bytes.Buffer
			exportAccounts(accs, &buf)
			back, err := ImportKeys(bytes.NewReader(buf.Bytes()))
			if !sameAccounts(back, accs, err) {
				x.bad("keyfile-roundtrip:long-file", "ImportKeys(ExportKeys(x)) differs for a %d-byte file of %d accounts (first account name of %d characters): %v", buf.Len(), nacc, pad+1, err)
			}
			slid++
			x.tick(true)
		}
	}
	x.r.Extra["keyfile_boundary_positions"] = slid
	{
		var accs []*Account
		for a := 0; a < 6; a++ {
			accs = append(accs, &Account{Name: fmt.Sprintf("acc%d@example.org", a), Protocol: "prpl-jabber", Key: keys[a%len(keys)]})
		}
		var buf bytes.Buffer
		exportAccounts(accs, &buf)
		chunks := []int{1, 2, 3, 5, 7, 64, 1000, 4095, 4096, 4097}
		if thorough {
			chunks = nil
			for c := 1; c <= 4200; c++ {
				chunks = append(chunks, c)
			}
		}
		for _, c := range chunks {
			back, err := ImportKeys(&c17ChunkReader{data: buf.Bytes(), chunk: c})
			if !sameAccounts(back, accs, err) {
				x.bad("keyfile-roundtrip:chunked-reader", "ImportKeys differs for a %d-byte file of 6 accounts when the reader returns at most %d bytes per call: %v", buf.Len(), c, err)
			}
			x.tick(true)
		}
		x.r.Extra["keyfile_reader_chunk_sizes"] = len(chunks)
	}
}

// c17ChunkReader hands out the data in pieces of at most chunk bytes (a legitimate io.Reader: short reads)
type c17ChunkReader struct {
	data  []byte
	chunk int
}

func (r *c17ChunkReader) Read(b []byte) (int, error) {
	if len(r.data) == 0 {
		return 0, io.EOF
	}
	n := r.chunk
	if n > len(b) {
		n = len(b)
	}
	if n > len(r.data) {
		n = len(r.data)
	}
	copy(b, r.data[:n])
	r.data = r.data[n:]
	return n, nil
}

// bytes → values → bytes over the C13 byte-string domain, for every parser that accepts
func (x *c17Run) acceptedInputs() {
	n := c13EnumCount(5, 6)
	for i := 0; i < n; i++ {
		in := c13EnumString(i, c13ByteAlpha, 6)
		if _, v, ok := ExtractMPI(in); ok {
			_, v2, ok2 := ExtractMPI(AppendMPI(nil, v))
			if !ok2 || v2.Cmp(v) != 0 {
				x.bad("accepted-mpi", "parse(serialise(parse(%x))) differs for ExtractMPI", in)
			}
			x.tick(true)
		}
		if _, d, ok := ExtractData(in); ok {
			_, d2, ok2 := ExtractData(AppendData(nil, d))
			if !ok2 || !bytes.Equal(d, d2) {
				x.bad("accepted-data", "parse(serialise(parse(%x))) differs for ExtractData", in)
			}
			x.tick(true)
		}
		if _, vs, ok := ExtractMPIs(in); ok {
			b := AppendMPIs(AppendWord(nil, uint32(len(vs))), vs...)
			_, vs2, ok2 := ExtractMPIs(b)
			same := ok2 && len(vs) == len(vs2)
			for k := 0; same && k < len(vs); k++ {
				same = vs[k].Cmp(vs2[k]) == 0
			}
			if !same {
				x.bad("accepted-mpis", "parse(serialise(parse(%x))) differs for ExtractMPIs", in)
			}
			x.tick(true)
		}
		var t tlv
		if t.deserialize(in) == nil {
			var t2 tlv
			if t2.deserialize(t.serialize()) != nil || t2.tlvType != t.tlvType || !bytes.Equal(t2.tlvValue, t.tlvValue) {
				x.bad("accepted-tlv", "parse(serialise(parse(%x))) differs for tlv", in)
			}
			x.tick(true)
		}
		var k dhKey
		if k.deserialize(in) == nil {
			var k2 dhKey
			if k2.deserialize(k.serialize()) != nil || k2.gy.Cmp(k.gy) != 0 {
				x.bad("accepted-dhkey", "parse(serialise(parse(%x))) differs for dhKey", in)
			}
			x.tick(true)
		}
		x.evals++
	}
}

func init() {
	verifChecks["C17"] = &verifCheck{
		Level: "exploration",
		ReplayCase: func(cj string, seed int64) []verifFinding {
			// the enumeration is cheap: re-run it and return everything it reports
			r := &verifReport{Prop: "C17", Seed: seed, Tier: "quick", Outcomes: map[string]int64{}, Extra: map[string]interface{}{}}
			verifC17Run(r)
			var fs []verifFinding
			for _, v := range r.Violations {
				fs = append(fs, verifFinding{v.Sig, v.Detail})
			}
			return fs
		},
		Run: verifC17Run,
	}
}

// wireIntegers: every integer a running conversation puts on the wire is in minimal form with a matching length,
// also when it is short — the randomness source is scripted with tiny D-H exponents (and one ordinary run), so that
// g^x and the next-key values are 1, 2, 5, 24, 191 and 192 bytes long
func (x *c17Run) wireIntegers(seed int64) {
	minimal := func(what string, b []byte) (rest []byte) {
		if len(b) < 4 {
			x.bad("wire-mpi:"+what, "%s: no room for an MPI length", what)
			return nil
		}
		l := int(binary.BigEndian.Uint32(b))
		if l > len(b)-4 {
			x.bad("wire-mpi:"+what, "%s: MPI length %d beyond the data", what, l)
			return nil
		}
		if l > 0 && b[4] == 0 {
			x.bad("wire-mpi:"+what, "%s: integer emitted with a leading zero byte (length %d): not in minimal form", what, l)
		}
		x.tick(true)
		return b[4+l:]
	}
	for _, v := range []int{3, 2} {
		for _, tiny := range []bool{true, false} {
			pol := verifPolFor(v)
			w := verifNewPair(verifPairCfg{Seed: seed, PolA: pol, PolB: pol})
			if tiny {
				exps := [2][]int64{{39, 8, 3, 1, 7, 191}, {39, 191, 5, 2, 1, 8}}
				for i := 0; i < 2; i++ {
					for _, e := range exps[i] {
						b := make([]byte, 40)
						binary.BigEndian.PutUint64(b[32:], uint64(e))
						w.P[i].R.Script = append(w.P[i].R.Script, b)
					}
				}
			}
			var all [][]byte
			keep := func(_ int, _ []byte, r verifResult) { all = append(all, r.Out...) }
			w.Q[1] = append(w.Q[1], w.P[0].Query())
			w.deliverAll(30, keep)
			for k := 0; k < 3; k++ {
				for i := 0; i < 2; i++ {
					r := w.P[i].Send([]byte("text"))
					all = append(all, r.Out...)
					w.push(i, r.Out)
					w.deliverAll(10, keep)
				}
			}
			var commits [][]byte
			var rs [][]byte
			for _, m := range all {
				raw, err := decode(encodedMessage(m))
				if err != nil || len(raw) < 3 {
					continue
				}
				body := raw[3:]
				if v == 3 {
					if len(raw) < 11 {
						continue
					}
					body = raw[11:]
				}
				switch raw[2] {
				case msgTypeDHCommit:
					_, enc, ok := ExtractData(body)
					if ok {
						commits = append(commits, enc)
					}
				case msgTypeDHKey:
					minimal("D-H Key g^y", body)
				case msgTypeRevealSig:
					_, r, ok := ExtractData(body)
					if ok {
						rs = append(rs, r)
					}
				case msgTypeData:
					if len(body) > 9 {
						minimal("data message next D-H key", body[9:])
					}
				}
			}
			// the committed g^x: AES-CTR under r with a zero counter
			for i := range commits {
				if i >= len(rs) || len(rs[i]) != 16 {
					continue
				}
				gx := make([]byte, len(commits[i]))
				if counterEncipher(rs[i], make([]byte, 16), commits[i], gx) == nil {
					if rest := minimal("D-H Commit g^x (decrypted with r)", gx); len(rest) != 0 {
						x.bad("wire-mpi:commit-trailing", "decrypted g^x is followed by %d byte(s)", len(rest))
					}
				}
			}
		}
	}
}

func verifC17Run(r *verifReport) {
	r.Rule = "exhaustive small-domain enumeration, full products per structure: integers {0,1,7f,80,ff,100,2^64-1,2^64,p-1,p,2^1535}, byte strings of length {0,1,2,255,256,65535,65536} (with a leading zero byte), TLV types 0..9 × value lengths {0,1,2,255,256,65535}, TLV lists of length 0..3, texts up to 70000 bytes, SMP questions up to 70000 bytes; value→bytes→value equality, length prefixes equal content lengths, minimal MPIs; bytes→value→bytes on every input a parser accepts among all byte strings ≤ 6 over {00,01,7f,80,ff}; DSA keys derived to hit odd hex digit counts / short x / short y / zero bytes, wire form, fingerprint against an independent SHA-1 over the specification's layout, key file export→import with every account name ≤ 2 (thorough: 3) characters over a 20-byte alphabet (letters, digits, punctuation, blank, backslash, TAB, a control character, %, multi-byte UTF-8), 6-account (thorough: also 11 and 16) files with the first account name grown one character at a time over a whole entry length (every token slid over every 4096-byte reader boundary), and readers that return at most c bytes per call (10 sizes; thorough: every c ≤ 4200); every integer a running conversation emits (g^y, the g^x committed to, next D-H keys) is minimal, with the randomness source scripted to tiny exponents so that these are 1 to 192 bytes long; non-trivial = non-empty / accepted"
	r.Assumptions = []string{"DSA keys share one parameter set (p,q,g); only x and y vary", "the encrypted-signature field is compared modulo its length prefix (the sender keeps it with, the parser returns it without)"}
	x := &c17Run{r: r}
	x.primitives()
	x.akeMessages()
	x.dataMessages()
	x.smpMessages()
	x.apiLengths(r.Seed)
	x.keys(r.Seed, r.Tier == "thorough")
	x.acceptedInputs()
	x.wireIntegers(r.Seed)
	r.Evals = x.evals
	r.Nontrivial = x.nontr
	r.sample(map[string]string{"structure": "dataMsg", "case": "flag=1 kid={0x80000000,2} y=2^1535 ctr=ffffffffffffffff enc=65536B keys=1"})
	r.sample(map[string]string{"structure": "keyfile", "case": "3 accounts named \"a \" / \"a x\" / \"a xx\", protocol a.b_c/d+e@f:g, key with y-top-nibble-zero"})
}

func (x *c17Run) signatures(k *DSAPrivateKey, thorough bool) {
	q, pp, g, xx := k.PrivateKey.Q, k.PrivateKey.P, k.PrivateKey.G, k.PrivateKey.X
	nonces := 600
	if thorough {
		nonces = 6000
	}
	shortR, shortS := 0, 0
	one := func(kv, sWant *big.Int) {
		r := new(big.Int).Exp(g, kv, pp)
		r.Mod(r, q)
		if r.Sign() == 0 {
			return
		}
		// h = s·k − x·r (mod q)
		h := new(big.Int).Mul(sWant, kv)
		h.Sub(h, new(big.Int).Mul(xx, r))
		h.Mod(h, q)
		hashed := h.FillBytes(make([]byte, 20))
		d := verifNewDRBG(1, "c17sig")
		d.Script = [][]byte{kv.FillBytes(make([]byte, 20))}
		sig, err := k.Sign(d, hashed)
		x.tick(true)
		if err != nil || len(d.Script) != 0 {
			return // the scripted nonce was not taken: nothing is claimed about this case
		}
		want := append(r.FillBytes(make([]byte, 20)), sWant.FillBytes(make([]byte, 20))...)
		if len(r.Bytes()) < 20 {
			shortR++
		}
		if len(sWant.Bytes()) < 20 {
			shortS++
		}
		if !bytes.Equal(sig, want) {
			x.bad("signature-wire", "Sign writes %x for r=%x s=%x (r of %d bytes, s of %d bytes); the wire form is the two values as 20-byte big-endian fields: %x", sig, r, sWant, len(r.Bytes()), len(sWant.Bytes()), want)
			return
		}
		if rest, ok := k.PublicKey().Verify(hashed, append(append([]byte{}, sig...), 0xee)); !ok || len(rest) != 1 {
			x.bad("signature-verify", "Verify refuses the signature Sign produced (r of %d bytes, s of %d bytes)", len(r.Bytes()), len(sWant.Bytes()))
		}
		if !dsa.Verify(&k.PrivateKey.PublicKey, hashed, new(big.Int).SetBytes(sig[:20]), new(big.Int).SetBytes(sig[20:])) {
			x.bad("signature-wire", "the two 20-byte fields of Sign's output are not a valid DSA signature (r of %d bytes, s of %d bytes)", len(r.Bytes()), len(sWant.Bytes()))
		}
	}
	for kn := 1; kn <= nonces; kn++ {
		kv := new(big.Int).Exp(big.NewInt(3), big.NewInt(int64(kn)), q) // spread over the whole range
		// s of every byte length for the first nonces, one full-width s for the others (they are there for r)
		if kn <= 6 {
			for l := 1; l <= 20; l++ {
				sv := new(big.Int).Lsh(big.NewInt(int64(0x80+kn)), uint(8*(l-1)))
				if sv.Cmp(q) < 0 {
					one(kv, sv)
				}
			}
		}
		one(kv, new(big.Int).Sub(q, big.NewInt(int64(kn))))
	}
	x.r.Extra["signatures"] = fmt.Sprintf("%d nonces; signatures with r shorter than 20 bytes: %d, with s shorter than 20 bytes: %d", nonces, shortR, shortS)
}
