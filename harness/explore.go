//go:build verif

package otr3

// Explicit-state exploration whose transitions are executions of the real code.

import (
	"encoding/json"
	"fmt"
	"runtime"
	"sort"
	"strings"
	"sync"
	"time"
)

type verifEv struct {
	K string `json:"k"`
	I int    `json:"i,omitempty"`
	J int    `json:"j,omitempty"`
	S string `json:"s,omitempty"`
	D []byte `json:"d,omitempty"`
}

func (e verifEv) String() string {
	s := fmt.Sprintf("%s(%d", e.K, e.I)
	if e.J != 0 {
		s += fmt.Sprintf(",%d", e.J)
	}
	if e.S != "" {
		s += "," + e.S
	}
	if e.D != nil {
		s += fmt.Sprintf(",%dB", len(e.D))
	}
	return s + ")"
}

func verifPathString(p []verifEv) string {
	var ss []string
	for _, e := range p {
		ss = append(ss, e.String())
	}
	return strings.Join(ss, " ")
}

// a finding is a property violation observed at one step
type verifFinding struct {
	Sig    string // stable signature (used for known-findings matching)
	Detail string
}

type verifSys struct {
	Prop  string
	ID    string // identifies the configuration; verifBuildSys(Prop, ID, seed) rebuilds it for replay
	Seed  int64
	Init  func() *verifWorld
	Evs   func(w *verifWorld) []verifEv
	Apply func(w *verifWorld, e verifEv) []verifFinding
	Final func(w *verifWorld) []verifFinding // at maximal states (no enabled event)
	Label func(w *verifWorld) string         // observable outcome of a maximal state
	OnNew func(w *verifWorld) []verifFinding // evaluated once in every distinct state (probes on clones)
	// NoDedup disables state matching (stateless enumeration of all paths)
	NoDedup bool
	// Workers: number of parallel explorer workers (0: one per CPU). 1 when the subject is process-wide state.
	Workers int
}

type verifViolation struct {
	Prop   string    `json:"property"`
	Sig    string    `json:"signature"`
	Detail string    `json:"detail"`
	Sys    string    `json:"sys,omitempty"`
	Seed   int64     `json:"seed"`
	Path   []verifEv `json:"path,omitempty"`
	Case   string    `json:"case,omitempty"` // for enumerations: JSON of the failing case
	Count  int       `json:"count"`          // how many times this signature was observed in the run
	More   []string  `json:"more,omitempty"` // further cases with the same signature
}

type verifStats struct {
	States, Transitions, MaxPaths int64
	MaxDepth                      int
	Outcomes                      map[string]int64
	Cut                           bool // deadline or state cap reached
	SamplePaths                   []string
}

type verifNode struct {
	w      *verifWorld
	parent *verifNode
	ev     verifEv
	depth  int
}

func (n *verifNode) path() []verifEv {
	var p []verifEv
	for x := n; x != nil && x.parent != nil; x = x.parent {
		p = append(p, x.ev)
	}
	for i, j := 0, len(p)-1; i < j; i, j = i+1, j-1 {
		p[i], p[j] = p[j], p[i]
	}
	return p
}

type verifExplorer struct {
	sys      *verifSys
	deadline time.Time
	maxState int64
	workers  int

	mu       sync.Mutex
	cond     *sync.Cond
	stack    []*verifNode
	active   int
	seen     map[[16]byte]struct{}
	stats    verifStats
	findings map[string]*verifViolation
}

func verifExplore(sys *verifSys, deadline time.Time, workers int) (verifStats, []*verifViolation) {
	if sys.Workers > 0 {
		workers = sys.Workers
	}
	if workers <= 0 {
		workers = runtime.NumCPU()
	}
	ex := &verifExplorer{sys: sys, deadline: deadline, workers: workers, maxState: 20_000_000,
		seen: map[[16]byte]struct{}{}, findings: map[string]*verifViolation{}}
	ex.cond = sync.NewCond(&ex.mu)
	ex.stats.Outcomes = map[string]int64{}
	w0, sf := verifSafeInit(sys)
	if sf != nil {
		return ex.stats, []*verifViolation{{Prop: sys.Prop, Sig: sf.Sig, Detail: sf.Detail, Sys: sys.ID, Seed: sys.Seed, Path: []verifEv{}, Count: 1}}
	}
	root := &verifNode{w: w0}
	ex.seen[root.w.key()] = struct{}{}
	ex.stats.States = 1
	ex.stack = append(ex.stack, root)
	var wg sync.WaitGroup
	for i := 0; i < workers; i++ {
		wg.Add(1)
		go func() {
			defer wg.Done()
			ex.worker()
		}()
	}
	wg.Wait()
	var out []*verifViolation
	for _, v := range ex.findings {
		out = append(out, v)
	}
	sort.Slice(out, func(i, j int) bool { return out[i].Sig < out[j].Sig })
	return ex.stats, out
}

func (ex *verifExplorer) report(n *verifNode, ev *verifEv, fs []verifFinding) {
	if len(fs) == 0 {
		return
	}
	p := n.path()
	if ev != nil {
		p = append(p, *ev)
	}
	ex.mu.Lock()
	defer ex.mu.Unlock()
	for _, f := range fs {
		old, ok := ex.findings[f.Sig]
		if ok {
			old.Count++
			if len(old.Path) <= len(p) {
				continue
			}
			old.Path, old.Detail = p, f.Detail
			continue
		}
		ex.findings[f.Sig] = &verifViolation{Prop: ex.sys.Prop, Sig: f.Sig, Detail: f.Detail, Sys: ex.sys.ID, Seed: ex.sys.Seed, Path: p, Count: 1}
	}
}

func (ex *verifExplorer) worker() {
	for {
		ex.mu.Lock()
		for len(ex.stack) == 0 && ex.active > 0 {
			ex.cond.Wait()
		}
		if len(ex.stack) == 0 {
			ex.mu.Unlock()
			ex.cond.Broadcast()
			return
		}
		n := ex.stack[len(ex.stack)-1]
		ex.stack = ex.stack[:len(ex.stack)-1]
		ex.active++
		cut := ex.stats.Cut
		ex.mu.Unlock()

		if !cut && (time.Now().After(ex.deadline)) {
			ex.mu.Lock()
			ex.stats.Cut = true
			ex.mu.Unlock()
			cut = true
		}
		if !cut {
			ex.expand(n)
		}
		ex.mu.Lock()
		ex.active--
		ex.mu.Unlock()
		ex.cond.Broadcast()
	}
}

func (ex *verifExplorer) expand(n *verifNode) {
	evs := ex.sys.Evs(n.w)
	if len(evs) == 0 {
		var fs []verifFinding
		if ex.sys.Final != nil {
			fs = ex.sys.Final(n.w.clone())
		}
		ex.report(n, nil, fs)
		lab := ""
		if ex.sys.Label != nil {
			lab = ex.sys.Label(n.w)
		}
		ex.mu.Lock()
		ex.stats.MaxPaths++
		ex.stats.Outcomes[lab]++
		if len(ex.stats.SamplePaths) < 3 {
			ex.stats.SamplePaths = append(ex.stats.SamplePaths, verifPathString(n.path()))
		}
		ex.mu.Unlock()
		return
	}
	var kids []*verifNode
	for i := range evs {
		ev := evs[i]
		var w2 *verifWorld
		if i == len(evs)-1 {
			w2 = n.w // the last successor may consume the parent world
		} else {
			w2 = n.w.clone()
		}
		fs := ex.sys.Apply(w2, ev)
		ex.report(n, &ev, fs)
		kid := &verifNode{w: w2, parent: n, ev: ev, depth: n.depth + 1}
		isNew := true
		var k [16]byte
		if !ex.sys.NoDedup {
			k = w2.key()
		}
		ex.mu.Lock()
		ex.stats.Transitions++
		if !ex.sys.NoDedup {
			if _, ok := ex.seen[k]; ok {
				isNew = false
			} else {
				ex.seen[k] = struct{}{}
			}
		}
		if isNew {
			ex.stats.States++
			if kid.depth > ex.stats.MaxDepth {
				ex.stats.MaxDepth = kid.depth
			}
			if ex.stats.States > ex.maxState {
				ex.stats.Cut = true
			}
		}
		ex.mu.Unlock()
		if isNew {
			if ex.sys.OnNew != nil {
				ex.report(kid, nil, ex.sys.OnNew(w2))
			}
			kids = append(kids, kid)
		}
	}
	n.w = nil // release
	if len(kids) > 0 {
		ex.mu.Lock()
		ex.stack = append(ex.stack, kids...)
		ex.mu.Unlock()
		ex.cond.Broadcast()
	}
}

// verifReplay re-executes a recorded path on a fresh world and returns the signatures observed.
// verifSafeInit builds the initial world; an honest set-up that fails (sessions cannot be established, …) is a
// finding of the property under test, not a crash of the checker
func verifSafeInit(sys *verifSys) (w *verifWorld, f *verifFinding) {
	defer func() {
		if r := recover(); r != nil {
			msg := fmt.Sprint(r)
			if strings.HasPrefix(msg, "verif:") {
				w, f = nil, &verifFinding{sys.Prop + ":honest-setup-failed", fmt.Sprintf("the honest set-up of configuration %s fails: %s", sys.ID, msg)}
				return
			}
			panic(r)
		}
	}()
	return sys.Init(), nil
}

func verifReplay(sys *verifSys, path []verifEv) (sigs []string, details map[string]string, err error) {
	w, sf := verifSafeInit(sys)
	details = map[string]string{}
	if sf != nil {
		return []string{sf.Sig}, map[string]string{sf.Sig: sf.Detail}, nil
	}
	add := func(fs []verifFinding) {
		for _, f := range fs {
			if _, ok := details[f.Sig]; !ok {
				sigs = append(sigs, f.Sig)
				details[f.Sig] = f.Detail
			}
		}
	}
	for i, ev := range path {
		ok := false
		for _, e := range sys.Evs(w) {
			if verifEvEq(e, ev) {
				ok = true
			}
		}
		if !ok {
			return nil, nil, fmt.Errorf("replay diverged: event %d %s is not enabled", i, ev)
		}
		add(sys.Apply(w, ev))
		if sys.OnNew != nil {
			add(sys.OnNew(w))
		}
	}
	if len(sys.Evs(w)) == 0 && sys.Final != nil {
		add(sys.Final(w.clone()))
	}
	sort.Strings(sigs)
	return
}

func verifEvEq(a, b verifEv) bool {
	return a.K == b.K && a.I == b.I && a.J == b.J && a.S == b.S && string(a.D) == string(b.D)
}

func verifJSON(v interface{}) string {
	b, _ := json.Marshal(v)
	return string(b)
}
