//go:build verif

package otr3

import (
	"bytes"
	"fmt"
	"strings"
)

// C11 — SMP reports success exactly when the secrets match within one session.

type c11Pair struct {
	Name string
	A, B []byte
}

func c11Pairs() []c11Pair {
	long := bytes.Repeat([]byte("0123456789"), 100)
	long2 := append([]byte{}, long...)
	long2[len(long2)-1] ^= 0x01
	return []c11Pair{
		{"empty-equal", []byte{}, []byte{}},
		{"a-a", []byte("a"), []byte("a")},
		{"a-b", []byte("a"), []byte("b")},
		{"a-A", []byte("a"), []byte("A")},
		{"long-equal", long, append([]byte{}, long...)},
		{"long-last-bit", long, long2},
		{"binary-equal", []byte{0, 0xff, 0, 1}, []byte{0, 0xff, 0, 1}},
		{"binary-nul-suffix", []byte{0x61}, []byte{0x61, 0}},
		{"ab-abc", []byte("ab"), []byte("abc")},
		{"empty-vs-a", []byte{}, []byte("a")},
		{"trailing-space", []byte("Paris"), []byte("Paris ")},
		{"empty-vs-space", []byte{}, []byte(" ")},
		{"invalid-utf8", []byte{1, 0xff, 2}, []byte{1, 0xfe, 2}},
	}
}

type monC11 struct {
	Init     int // initiator
	Starts   int // remaining StartAuthenticate calls
	Traffic  int // remaining traffic events
	Ticks    int
	Asked    [2]bool
	NAsk     [2]int
	NAnswer  [2]int
	Succ     [2]int
	Fail     [2]int
	Abort    [2]int
	Other    [2]int
	LastEv   [2]int // last SMP event seen (-1 none)
	Started  int
	Restart  bool // a start was issued while a run was pending
	TextSent [2]int
	TextGot  [2]int
	Mode     byte   // 0: further starts back-to-back; 'r': the initiator may start again at any time; 'x': the other side may
	Cur      int    // side that issued the latest start
	Answered bool   // somebody has provided a secret since the latest start
	Dirty    bool   // a restart crossed messages of the run it replaces: the protocol does not promise that run a verdict
	Flight   [2]int // deliveries to this side until the latest start message addressed to it has been received
	Open     bool    // a run has been started and has not yet ended (terminal event) on both sides
	Term     [2]bool // this side has seen a terminal event since the latest start
}

// id: "v<2|3>/<pair>/<q|noq>/init<A|B>/S<starts>/T<traffic>"
func verifC11Sys(id string, seed int64) *verifSys {
	parts := strings.Split(id, "/")
	hist := ""
	if len(parts) == 7 {
		// how the session came about: "Hr" = refresh of a running session, "Ha" = A ended, its disconnect message was
		// lost, B (still encrypted) asked again; default: first exchange of the conversation
		hist, parts = parts[6], parts[:6]
	}
	if len(parts) != 6 {
		return nil
	}
	var v, starts, traffic int
	fmt.Sscanf(parts[0], "v%d", &v)
	var pair c11Pair
	for _, p := range c11Pairs() {
		if p.Name == parts[1] {
			pair = p
		}
	}
	if pair.Name == "" {
		return nil
	}
	question := ""
	if parts[2] == "q" {
		question = "what is it?"
	} else if strings.HasPrefix(parts[2], "q") {
		// a question of exactly that many bytes (around and beyond any internal buffer size)
		n := 0
		fmt.Sscanf(parts[2], "q%d", &n)
		for len(question) < n {
			question += "is it you? "
		}
		question = question[:n]
	}
	init := int(parts[3][4] - 'A')
	fmt.Sscanf(parts[4], "S%d", &starts)
	var mode byte
	if l := parts[4][len(parts[4])-1]; l == 'r' || l == 'x' {
		mode = l
	}
	fmt.Sscanf(parts[5], "T%d", &traffic)
	secret := func(i int) []byte {
		if i == 0 {
			return pair.A
		}
		return pair.B
	}
	equal := bytes.Equal(pair.A, pair.B)
	sys := &verifSys{Prop: "C11", ID: id, Seed: seed}
	sys.Init = func() *verifWorld {
		w := verifEstablished(seed, v, 0)
		switch hist {
		case "Hr":
			verifTick(w.P[0].C)
			verifTick(w.P[1].C)
			w.Q[0] = append(w.Q[0], w.P[1].Query())
		case "Hk":
			// an SMP run has taken place; then B's client comes back with another long-term key (same instance tag),
			// A still holds the session, B asks and the session is replaced without End() on A's side
			c11FreshRun(w, 0, question, secret)
			old := w.P[1]
			w.P[1] = verifNewPrincipal(verifConvCfg{Name: "B", Seed: seed + 500, Policies: old.C.Policies, Key: verifKey(seed, "B-second-key")})
			w.P[1].C.ourInstanceTag = old.C.ourInstanceTag
			w.Q[0], w.Q[1] = nil, nil
			verifTick(w.P[0].C)
			w.Q[0] = append(w.Q[0], w.P[1].Query())
		case "Ha":
			w.P[0].End() // the disconnect message never arrives
			verifTick(w.P[0].C)
			verifTick(w.P[1].C)
			w.Q[0] = append(w.Q[0], w.P[1].Query())
		}
		if hist != "" && (!w.deliverAll(40, nil) || !w.P[0].C.IsEncrypted() || !w.P[1].C.IsEncrypted()) {
			panic("verif: C11 setup failed for " + id)
		}
		w.P[0].Rec.take()
		w.P[1].Rec.take()
		w.Mon = &monC11{Init: init, Starts: starts, Traffic: traffic, Ticks: 1, LastEv: [2]int{-1, -1}, Mode: mode, Cur: init}
		return w
	}
	sys.Evs = func(w *verifWorld) []verifEv {
		m := w.Mon.(*monC11)
		var evs []verifEv
		for i := 0; i < 2; i++ {
			if len(w.Q[i]) > 0 {
				evs = append(evs, verifEv{K: "deliver", I: i})
			}
		}
		terminal := func(e int) bool {
			return e == int(SMPEventSuccess) || e == int(SMPEventFailure) || e == int(SMPEventAbort)
		}
		// a further run is started back-to-back: only once the previous one has ended on both sides
		// (a restart that crosses the peer's answer in flight aborts both runs by design of the protocol)
		if m.Starts > 0 && (m.Started == 0 || (len(w.Q[0])+len(w.Q[1]) == 0 && !m.Open && terminal(m.LastEv[0]) && terminal(m.LastEv[1]) && !m.Asked[0] && !m.Asked[1])) {
			evs = append(evs, verifEv{K: "smpstart", I: m.Init})
		} else if m.Starts > 0 && m.Mode == 'r' {
			// the user enters the secret again while the run is still pending
			evs = append(evs, verifEv{K: "smpstart", I: m.Init})
		} else if m.Starts > 0 && m.Mode == 'x' {
			// the other user starts a run of their own (instead of answering, or at any other moment)
			evs = append(evs, verifEv{K: "smpstart", I: 1 - m.Init})
		}
		for i := 0; i < 2; i++ {
			if m.Asked[i] {
				evs = append(evs, verifEv{K: "smpanswer", I: i})
			}
		}
		if m.Traffic > 0 && m.Started > 0 {
			evs = append(evs, verifEv{K: "text", I: 0}, verifEv{K: "text", I: 1})
			if m.Ticks > 0 {
				evs = append(evs, verifEv{K: "tick"})
			}
		}
		return evs
	}
	sys.Apply = func(w *verifWorld, e verifEv) []verifFinding {
		m := w.Mon.(*monC11)
		var fs []verifFinding
		bad := func(sig, format string, a ...interface{}) {
			fs = append(fs, verifFinding{"C11:" + sig, fmt.Sprintf(format, a...) + " [" + id + "]"})
		}
		var r verifResult
		p := w.P[e.I]
		switch e.K {
		case "tick":
			m.Traffic--
			m.Ticks--
			verifTick(w.P[0].C)
			verifTick(w.P[1].C)
			return nil
		case "text":
			m.Traffic--
			m.TextSent[e.I]++
			r = p.Send([]byte(fmt.Sprintf("chat %d/%d", e.I, m.TextSent[e.I])))
		case "smpstart":
			m.Starts--
			if m.Started > 0 && (m.Open || len(w.Q[0])+len(w.Q[1]) > 0) {
				m.Restart = true
				// the replaced run is only guaranteed to disappear without trace if nobody has answered it yet and no
				// start message is on its way to the side that starts now
				if m.Answered || m.Flight[e.I] > 0 {
					m.Dirty = true
				}
			}
			m.Started++
			m.Cur = e.I
			m.Answered = false
			m.Open = true
			m.Term = [2]bool{}
			m.Asked[e.I] = false // whoever starts a run of their own no longer owes an answer
			r = p.StartSMP(question, secret(e.I))
			if r.Err != "" {
				bad("start-error", "StartAuthenticate failed: %s", r.Err)
			}
			m.Flight[1-e.I] = len(w.Q[1-e.I]) + len(r.Out)
		case "smpanswer":
			m.Asked[e.I] = false
			m.NAnswer[e.I]++
			m.Answered = true
			stale := m.Flight[e.I] > 0 || m.LastEv[e.I] == int(SMPEventAbort)
			if stale {
				m.Dirty = true // answers a question that a restart under way has withdrawn
			}
			r = p.AnswerSMP(secret(e.I))
			if r.Err != "" && !stale && !m.Dirty {
				bad("answer-error", "ProvideAuthenticationSecret failed: %s", r.Err)
			}
		case "deliver":
			r = p.Receive(w.pop(e.I))
			if m.Flight[e.I] > 0 {
				m.Flight[e.I]--
			}
			if r.HasPln {
				m.TextGot[e.I]++
			}
			if r.Err != "" {
				bad("receive-error", "Receive failed in an honest run: %s", r.Err)
			}
		}
		if r.Panic != "" {
			bad("panic:"+verifPanicClass(r.Panic), "%s", r.Panic)
		}
		w.push(e.I, r.Out)
		for _, ev := range r.Events {
			if ev.Kind != 'P' {
				continue
			}
			m.LastEv[e.I] = ev.Code
			if c := SMPEvent(ev.Code); c == SMPEventSuccess || c == SMPEventFailure || c == SMPEventAbort {
				m.Term[e.I] = true
				if m.Term[0] && m.Term[1] {
					m.Open = false
				}
			}
			switch SMPEvent(ev.Code) {
			case SMPEventAskForSecret, SMPEventAskForAnswer:
				m.Asked[e.I] = true
				m.NAsk[e.I]++
				if (SMPEvent(ev.Code) == SMPEventAskForAnswer) != (question != "") || string(ev.Msg) != question {
					bad("question-mismatch", "%s was asked %s with question %q, the initiator gave %q", p.Name, SMPEvent(ev.Code), ev.Msg, question)
				}
			case SMPEventSuccess:
				m.Succ[e.I]++
				if !equal {
					bad("success-with-different-secrets", "%s reports SMP success although the secrets differ (%s)", p.Name, pair.Name)
				}
			case SMPEventFailure:
				m.Fail[e.I]++
				if equal {
					bad("failure-with-equal-secrets", "%s reports SMP failure although the secrets are equal (%s)", p.Name, pair.Name)
				}
			case SMPEventAbort:
				m.Abort[e.I]++
			case SMPEventInProgress:
			default:
				m.Other[e.I]++
				if !m.Restart {
					bad("unexpected-event:"+SMPEvent(ev.Code).String(), "%s raised %s in an honest single run", p.Name, SMPEvent(ev.Code))
				}
			}
		}
		return fs
	}
	sys.Final = func(w *verifWorld) []verifFinding {
		m := w.Mon.(*monC11)
		var fs []verifFinding
		bad := func(sig, format string, a ...interface{}) {
			fs = append(fs, verifFinding{"C11:" + sig, fmt.Sprintf(format, a...) + " [" + id + "]"})
		}
		ini := m.Cur
		resp := 1 - ini
		if m.Started == 0 {
			return nil
		}
		if m.Dirty {
			// the restart crossed the run it replaces: no verdict is promised for it, but nobody may report success with
			// different secrets (checked at every step) and a fresh run must work
			w2 := verifClone(w)
			verdict := c11FreshRun(w2, ini, question, secret)
			if equal && verdict != "success/success" {
				bad("no-success-after-crossed-restart", "equal secrets (%s): after a restart that crossed the peer's answer, a fresh run ends with %s", pair.Name, verdict)
			}
			if !equal && strings.Contains(verdict, "success") {
				bad("success-with-different-secrets", "fresh run after a crossed restart: %s", verdict)
			}
		} else if equal {
			if m.LastEv[ini] != int(SMPEventSuccess) || m.LastEv[resp] != int(SMPEventSuccess) {
				bad("no-success-with-equal-secrets", "equal secrets (%s) but at quiescence the last SMP events are %d (initiator) / %d (responder); success A=%d B=%d; restart=%v", pair.Name, m.LastEv[ini], m.LastEv[resp], m.Succ[0], m.Succ[1], m.Restart)
			}
		} else {
			if m.Succ[0]+m.Succ[1] > 0 {
				bad("success-with-different-secrets", "success events with different secrets")
			}
			if m.Fail[resp] == 0 {
				bad("mismatch-not-reported", "different secrets (%s) but the responder, who can tell, never reported failure", pair.Name)
			}
			if m.Fail[ini]+m.Abort[ini] == 0 {
				bad("mismatch-not-reported-to-initiator", "different secrets (%s) but the initiator saw neither failure nor abort", pair.Name)
			}
		}
		if !m.Restart {
			if m.NAsk[resp] != m.NAnswer[resp] || m.NAsk[ini] != 0 {
				bad("secret-asked-wrong-number-of-times", "asks: initiator %d responder %d, answers %d", m.NAsk[ini], m.NAsk[resp], m.NAnswer[resp])
			}
			if m.NAsk[resp] != m.Started {
				bad("secret-asked-wrong-number-of-times", "%d run(s) but the responder was asked %d time(s)", m.Started, m.NAsk[resp])
			}
		} else if !m.Dirty && m.NAnswer[resp] == 0 {
			bad("secret-asked-wrong-number-of-times", "the responder of the restarted run was never asked for the secret")
		}
		for i := 0; i < 2; i++ {
			if m.TextGot[i] != m.TextSent[1-i] {
				bad("text-lost-during-smp", "%s received %d of %d chat texts", w.P[i].Name, m.TextGot[i], m.TextSent[1-i])
			}
		}
		return fs
	}
	sys.Label = func(w *verifWorld) string {
		m := w.Mon.(*monC11)
		return fmt.Sprintf("succ=%v fail=%v abort=%v asks=%v restart=%v keyids=%d/%d", m.Succ, m.Fail, m.Abort, m.NAsk, m.Restart, w.P[0].C.keys.ourKeyID, w.P[1].C.keys.ourKeyID)
	}
	return sys
}

// c11FreshRun drives one more run from a quiescent world and reports the last SMP events "initiator/responder"
func c11FreshRun(w *verifWorld, ini int, question string, secret func(int) []byte) string {
	last := [2]string{"none", "none"}
	note := func(i int, r verifResult) {
		w.push(i, r.Out)
		for _, ev := range r.Events {
			if ev.Kind != 'P' {
				continue
			}
			switch SMPEvent(ev.Code) {
			case SMPEventSuccess:
				last[i] = "success"
			case SMPEventFailure:
				last[i] = "failure"
			case SMPEventAbort:
				last[i] = "abort"
			case SMPEventAskForSecret, SMPEventAskForAnswer:
				a := w.P[i].AnswerSMP(secret(i))
				w.push(i, a.Out)
			case SMPEventInProgress:
			default:
				last[i] = SMPEvent(ev.Code).String()
			}
		}
	}
	w.P[0].Rec.take()
	w.P[1].Rec.take()
	note(ini, w.P[ini].StartSMP(question, secret(ini)))
	for n := 0; n < 40 && len(w.Q[0])+len(w.Q[1]) > 0; n++ {
		for i := 0; i < 2; i++ {
			if len(w.Q[i]) > 0 {
				note(i, w.P[i].Receive(w.pop(i)))
			}
		}
	}
	return last[ini] + "/" + last[1-ini]
}

// ---------------------------------------------------------------------------
// relay: A–M1 and M2–B are two separately keyed sessions; M forwards the SMP payloads

func verifOpenAsReceiver(c *Conversation, msg []byte) (info verifDataInfo) {
	_, dm, version, ok := verifParseData(msg)
	if !ok {
		return
	}
	priv, pub, err := c.keys.pickOurKeys(dm.recipientKeyID)
	if err != nil || priv == nil {
		return
	}
	their, err := c.keys.pickTheirKey(dm.senderKeyID)
	if err != nil || their == nil {
		return
	}
	var v otrVersion = otrV3{}
	if version == 2 {
		v = otrV2{}
	}
	sk := calculateDHSessionKeys(priv, pub, their, v)
	sk.unlock()
	p := plainDataMsg{}
	if p.decrypt(sk.receivingAESKey, dm.topHalfCtr, append([]byte{}, dm.encryptedMsg...)) != nil {
		return
	}
	info.OK = true
	info.Plain = p.message
	info.TLVs = p.tlvs
	return
}

type c11Relay struct {
	Ver      int    `json:"version"`
	Pair     string `json:"pair"`
	Init     int    `json:"initiator"`
	Question bool   `json:"question"`
	SameIDs  bool   `json:"same_identities"` // the relay's two conversations hold B's and A's long-term keys (other instances of the same identities)
}

func c11RunRelay(rc c11Relay, seed int64) (fs []verifFinding, outcome string) {
	var pair c11Pair
	for _, p := range c11Pairs() {
		if p.Name == rc.Pair {
			pair = p
		}
	}
	pol := verifPolFor(rc.Ver)
	mk := func(name, key string) *verifPrincipal {
		return verifNewPrincipal(verifConvCfg{Name: name, Seed: seed, Policies: pol, Key: verifKey(seed, key)})
	}
	k1, k2 := "M", "M"
	if rc.SameIDs {
		k1, k2 = "B", "A"
	}
	A, M1, M2, B := mk("A", "A"), mk("M1", k1), mk("M2", k2), mk("B", "B")
	left := &verifWorld{P: []*verifPrincipal{A, M1}, Q: make([][][]byte, 2)}
	right := &verifWorld{P: []*verifPrincipal{M2, B}, Q: make([][][]byte, 2)}
	for _, w := range []*verifWorld{left, right} {
		w.Q[1] = append(w.Q[1], w.P[0].Query())
		if !w.deliverAll(40, nil) || !w.P[0].C.IsEncrypted() || !w.P[1].C.IsEncrypted() {
			return []verifFinding{{"C11:relay-setup", "relay sessions could not be established"}}, "setup failed"
		}
	}
	for _, p := range []*verifPrincipal{A, M1, M2, B} {
		p.Rec.take()
	}
	secrets := map[*verifPrincipal][]byte{A: pair.A, B: pair.B}
	var events []string
	note := func(p *verifPrincipal, r verifResult) {
		if r.Panic != "" {
			fs = append(fs, verifFinding{"C11:panic:" + verifPanicClass(r.Panic), r.Panic})
		}
		for _, ev := range r.Events {
			if ev.Kind == 'P' {
				events = append(events, p.Name+":"+SMPEvent(ev.Code).String())
				if SMPEvent(ev.Code) == SMPEventSuccess && (p == A || p == B) {
					fs = append(fs, verifFinding{"C11:success-across-relay", fmt.Sprintf("%s reports SMP success although a relay sits between two separately keyed sessions (v%d, %s, initiator %d, question %v)", p.Name, rc.Ver, rc.Pair, rc.Init, rc.Question)})
				}
			}
		}
	}
	// forward: message from honest end h (to its M-side conversation mNear) is opened, and its SMP TLVs are
	// re-sent by mFar to the other honest end
	var pendingToA, pendingToB [][]byte
	forward := func(msg []byte, mNear, mFar *verifPrincipal, out *[][]byte) {
		info := verifOpenAsReceiver(mNear.C, msg)
		r := mNear.Receive(msg) // keeps the near session's ratchet going; its own SMP replies are discarded
		note(mNear, r)
		if !info.OK {
			return
		}
		var smp []tlv
		for _, t := range info.TLVs {
			if t.tlvType >= tlvTypeSMP1 && t.tlvType <= tlvTypeSMP1WithQuestion {
				smp = append(smp, tlv{tlvType: t.tlvType, tlvLength: t.tlvLength, tlvValue: append([]byte{}, t.tlvValue...)})
			}
		}
		if len(smp) == 0 {
			return
		}
		ms, _, err := mFar.C.createSerializedDataMessage(nil, messageFlagIgnoreUnreadable, smp)
		if err == nil {
			for _, m := range ms {
				*out = append(*out, append([]byte{}, m...))
			}
		}
	}
	honest := func(p *verifPrincipal, msg []byte) [][]byte {
		r := p.Receive(msg)
		note(p, r)
		out := r.Out
		for _, ev := range r.Events {
			if ev.Kind == 'P' && (SMPEvent(ev.Code) == SMPEventAskForSecret || SMPEvent(ev.Code) == SMPEventAskForAnswer) {
				a := p.AnswerSMP(secrets[p])
				note(p, a)
				out = append(out, a.Out...)
			}
		}
		return out
	}
	q := ""
	if rc.Question {
		q = "q?"
	}
	var fromA, fromB [][]byte
	if rc.Init == 0 {
		r := A.StartSMP(q, pair.A)
		note(A, r)
		fromA = r.Out
	} else {
		r := B.StartSMP(q, pair.B)
		note(B, r)
		fromB = r.Out
	}
	for round := 0; round < 12; round++ {
		if len(fromA)+len(fromB)+len(pendingToA)+len(pendingToB) == 0 {
			break
		}
		for _, m := range fromA {
			forward(m, M1, M2, &pendingToB)
		}
		fromA = nil
		for _, m := range fromB {
			forward(m, M2, M1, &pendingToA)
		}
		fromB = nil
		for _, m := range pendingToB {
			fromB = append(fromB, honest(B, m)...)
		}
		pendingToB = nil
		for _, m := range pendingToA {
			fromA = append(fromA, honest(A, m)...)
		}
		pendingToA = nil
	}
	// the run must at least have reached the comparing step, otherwise the scenario proves nothing
	reached := false
	for _, e := range events {
		if strings.HasSuffix(e, "SMPEventFailure") || strings.HasSuffix(e, "SMPEventSuccess") || strings.HasSuffix(e, "SMPEventCheated") {
			reached = true
		}
	}
	if !reached {
		fs = append(fs, verifFinding{"C11:relay-vacuous", fmt.Sprintf("the relayed run never reached a verdict (events %v)", events)})
	}
	return fs, strings.Join(events, ",")
}

func init() {
	verifChecks["C11"] = &verifCheck{
		Level: "model_checking",
		Build: verifC11Sys,
		ReplayCase: func(cj string, seed int64) []verifFinding {
			var rc c11Relay
			if jsonUnmarshal(cj, &rc) != nil {
				return nil
			}
			fs, _ := c11RunRelay(rc, seed)
			return fs
		},
		Run: func(r *verifReport) {
			r.Rule = "honest world: for every secret pair (empty, equal, case / last-bit / NUL-suffix / prefix / trailing-blank differences, blank vs. empty, invalid UTF-8, 1000-byte, binary) × with/without question (and questions of 1 … 30000 bytes) × either initiator × v2/v3: explicit-state exploration of all interleavings of SMP steps, the answer, a budget of chat texts either way (forcing key rotation) and a clock tick, with 1 or 2 StartAuthenticate calls by the initiator (back-to-back), a further StartAuthenticate at any moment by either side (S2r / S2x), in sessions that came about by a first exchange, by a refresh (Hr) by a re-key after one side ended and its disconnect was lost (Ha), and by a refresh after an earlier SMP run in which the peer came back with another long-term key (Hk); oracle: success on both sides ⇔ secrets byte-equal, never success otherwise, failure on the responder and failure/abort on the initiator, the secret asked for exactly once per run, no chat text lost. Relay world: A–M1 and M2–B separately keyed, M forwards every SMP TLV it decrypts (with the attacker's own key, and with the relay's conversations holding the honest parties' own long-term keys, i.e. other instances of the same identities): no success on A or B for every pair, initiator, question, version (each run must reach a verdict)"
			r.Assumptions = []string{"one initiator per configuration (simultaneous initiation by both sides is not a run of the protocol)", "the relay opens data messages with package-internal key material of its own conversations"}
			pairs := c11Pairs()
			var ids []string
			if r.Tier == "quick" {
				for i, p := range pairs {
					v := 3 - i%2
					q := []string{"q", "noq"}[i%2]
					ini := "AB"[(i/2)%2]
					ids = append(ids, fmt.Sprintf("v%d/%s/%s/init%c/S1/T1", v, p.Name, q, ini))
				}
				ids = append(ids, "v3/a-a/noq/initA/S2/T0", "v2/a-b/q/initB/S2/T0", "v2/a-a/q/initB/S1/T2",
					"v3/a-a/q/initA/S2r/T0", "v2/a-a/noq/initB/S2x/T0", "v3/a-b/noq/initB/S2r/T0", "v2/a-b/q/initA/S2x/T0",
					"v3/a-A/q/initA/S1/T0", "v2/trailing-space/q/initB/S1/T0", "v3/empty-vs-space/q/initB/S1/T0", "v2/invalid-utf8/q/initA/S1/T0",
					"v3/a-a/noq/initA/S1/T0/Hr", "v2/a-a/q/initB/S1/T0/Ha", "v3/a-a/q/initB/S1/T0/Ha", "v2/a-b/noq/initA/S1/T0/Hr", "v3/a-a/noq/initA/S1/T0/Hk", "v2/a-a/q/initB/S1/T0/Hk",
					"v3/a-a/q1024/initA/S1/T0", "v2/a-a/q3000/initB/S1/T0", "v3/a-b/q1023/initB/S1/T0")
			} else {
				for _, p := range pairs {
					for _, v := range []int{2, 3} {
						for _, q := range []string{"q", "noq"} {
							for _, ini := range []string{"A", "B"} {
								ids = append(ids, fmt.Sprintf("v%d/%s/%s/init%s/S1/T1", v, p.Name, q, ini))
							}
						}
					}
				}
				for _, p := range []string{"a-a", "a-b"} {
					for _, v := range []int{2, 3} {
						for _, h := range []string{"Hr", "Ha", "Hk"} {
							for _, ini := range []string{"A", "B"} {
								ids = append(ids, fmt.Sprintf("v%d/%s/noq/init%s/S1/T1/%s", v, p, ini, h))
							}
						}
					}
				}
				for _, ql := range []int{1, 255, 256, 1023, 1024, 1025, 3000, 30000} {
					for _, v := range []int{2, 3} {
						ids = append(ids, fmt.Sprintf("v%d/a-a/q%d/initA/S1/T0", v, ql), fmt.Sprintf("v%d/a-b/q%d/initB/S1/T0", v, ql))
					}
				}
				for _, p := range []string{"a-a", "a-b", "long-last-bit", "empty-equal"} {
					ids = append(ids, fmt.Sprintf("v3/%s/noq/initA/S2/T1", p), fmt.Sprintf("v2/%s/q/initB/S2/T1", p), fmt.Sprintf("v3/%s/q/initB/S1/T2", p))
					for _, v := range []int{2, 3} {
						for _, md := range []string{"r", "x"} {
							ids = append(ids, fmt.Sprintf("v%d/%s/q/initA/S2%s/T1", v, p, md), fmt.Sprintf("v%d/%s/noq/initB/S2%s/T0", v, p, md), fmt.Sprintf("v%d/%s/noq/initA/S3%s/T0", v, p, md))
						}
					}
				}
			}
			for _, id := range ids {
				r.explore(verifC11Sys(id, r.Seed))
			}
			n := 0
			for _, v := range []int{2, 3} {
				for _, p := range pairs {
					for ini := 0; ini < 2; ini++ {
						for _, q := range []bool{false, true} {
							if r.Tier == "quick" && (n%3 != 0) {
								n++
								continue
							}
							n++
							for _, same := range []bool{false, true} {
								rc := c11Relay{v, p.Name, ini, q, same}
								fs, oc := c11RunRelay(rc, r.Seed)
								r.Evals++
								r.Nontrivial++
								r.Outcomes[fmt.Sprintf("relay(same-identities=%v): %s", same, oc)]++
								for _, f := range fs {
									r.addCase("C11", f.Sig, f.Detail, rc)
								}
							}
						}
					}
				}
			}
			r.sample(map[string]interface{}{"relay": c11Relay{3, "a-a", 0, true, true}})
		},
	}
}
