//go:build verif

package otr3

type verifPkgVar struct {
	Name string
	Ptr  interface{}
}
