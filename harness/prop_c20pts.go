//go:build verif

package otr3

import (
	"runtime"
	"runtime/debug"
	"bytes"
	"fmt"
	"os"
	"sort"
	"strconv"
	"strings"
)

// C20, finer granularity. The binary bin/otrmc-pts is built from instrumented copies of the sources (gen writes
// them under .build/pts; /repo is not touched): verifPoint() is the first statement of every function and function
// literal of package otr3, verifAccess() precedes every statement that names a package-level variable. In the
// ordinary binary nothing calls these functions.
//
// (1) invariance at every point: each script runs alone and at EVERY point the content of all package-level
//     variables is compared with its value after init. If no execution ever changes package-level state at any
//     point, steps of different conversations commute at this granularity, not only at API-call granularity.
// (2) bounded preemption: two scripts run as goroutines under a cooperative scheduler; for EVERY access point k of
//     one thread, that thread is preempted at k, the other runs to completion, the first resumes (1 preemption; all
//     positions, both orders). Thorough: every function entry is a preemption point, and 2 preemptions at access
//     points (the other thread is stopped at each of its points in turn). Every step's observable result is compared
//     with the solo run.

var verifPointHook func(kind int)

func verifPoint() {
	if h := verifPointHook; h != nil {
		h(0)
	}
}

func verifAccess() {
	if h := verifPointHook; h != nil {
		h(1)
	}
}

func c20Instrumented() bool {
	// the instrumented build calls the hook from library code; the ordinary build never does
	n := 0
	verifPointHook = func(int) { n++ }
	isGroupElement(g1)
	verifPointHook = nil
	return n > 0
}

// c20Invariance runs script kind alone and checks package-level state at every point.
func c20Invariance(seed int64, kind int) (points, accesses int, findings []string) {
	t := &c20Thread{W: c20World(seed, kind), Steps: c20Script(kind)}
	base, _ := c20PkgHash()
	reported := map[string]bool{}
	inHook := false
	step := ""
	verifPointHook = func(k int) {
		if inHook {
			return
		}
		inHook = true
		defer func() { inHook = false }()
		points++
		if k == 1 {
			accesses++
		}
		h, per := c20PkgHash()
		if h != base {
			per0 := c20InitPer
			var names []string
			for name, v := range per {
				if per0[name] != v {
					names = append(names, name)
				}
			}
			sort.Strings(names)
			for _, nm := range names {
				if !reported[nm] {
					reported[nm] = true
					findings = append(findings, fmt.Sprintf("C20:package-state-modified-inside-a-call:%s\tscript %d, during step %q (point %d): package-level variable %s differs from its value after init", nm, kind, step, points, nm))
				}
			}
		}
	}
	defer func() { verifPointHook = nil }()
	for t.Pos < len(t.Steps) {
		step = t.Steps[t.Pos].String()
		c20Step(t)
	}
	return
}

var c20InitPer map[string][32]byte


// ---------------------------------------------------------------------------
// cooperative scheduler, one preemption

type c20Switch struct{ Th, At int } // thread Th is preempted when it reaches its At-th point (0-based)

type c20Sched struct {
	cur    int
	count  [2]int // points seen per thread
	plan   []c20Switch
	next   int
	resume [2]chan bool
	done   [2]bool
}

// c20RunPreempt executes the two scripts under the cooperative scheduler: `first` starts; the planned preemptions
// are taken in order (a preemption hands control to the other thread; a thread that finishes hands it back).
// allPoints: every function entry is a scheduling point, otherwise only the accesses to package-level variables.
func c20RunPreempt(seed int64, kinds [2]int, first int, plan []c20Switch, allPoints bool) (transcripts [2][]string, counts [2]int, pkgChanged bool) {
	s := &c20Sched{plan: plan, cur: first}
	s.resume[0], s.resume[1] = make(chan bool), make(chan bool)
	finished := make(chan int, 2)
	threads := [2]*c20Thread{}
	for i := 0; i < 2; i++ {
		// different key material per thread, also when both run the same script
		threads[i] = &c20Thread{W: c20World(seed+int64(100*i), kinds[i]), Steps: c20Script(kinds[i])}
	}
	base, _ := c20PkgHash()
	verifPointHook = func(kind int) {
		if kind != 1 && !allPoints {
			return
		}
		me := s.cur
		n := s.count[me]
		s.count[me]++
		if s.next < len(s.plan) && s.plan[s.next].Th == me && s.plan[s.next].At == n {
			s.next++
			other := 1 - me
			if s.done[other] {
				return
			}
			s.cur = other
			s.resume[other] <- true
			<-s.resume[me]
			s.cur = me
		}
	}
	defer func() { verifPointHook = nil }()
	for i := 0; i < 2; i++ {
		i := i
		go func() {
			<-s.resume[i]
			t := threads[i]
			for t.Pos < len(t.Steps) {
				transcripts[i] = append(transcripts[i], c20Step(t))
			}
			s.done[i] = true
			finished <- i
		}()
	}
	s.resume[first] <- true
	for n := 0; n < 2; n++ {
		i := <-finished
		if n == 0 {
			s.cur = 1 - i
			s.resume[1-i] <- true
		}
	}
	h, _ := c20PkgHash()
	// the messages handed out earlier are re-read through the very slices the library returned: they belong to
	// the caller, nothing may write to them later (no cloning in this pass, so the aliases are the real ones)
	for i := 0; i < 2; i++ {
		for k, kept := range threads[i].Kept {
			if !bytes.Equal(kept[0], kept[1]) {
				transcripts[i] = append(transcripts[i], fmt.Sprintf("message #%d handed out earlier was overwritten later", k))
				break
			}
		}
	}
	return transcripts, s.count, h != base
}

// VerifC20Points is the entry point of `otrmc c20points <tier> <seed> [shard nshards]`
func VerifC20Points(args []string) int {
	tier := "quick"
	seed := int64(1)
	shard, nshards := 0, 1
	if len(args) > 0 {
		tier = args[0]
	}
	if len(args) > 1 {
		seed, _ = strconv.ParseInt(args[1], 10, 64)
	}
	if len(args) > 3 {
		shard, _ = strconv.Atoi(args[2])
		nshards, _ = strconv.Atoi(args[3])
	}
	// the garbage collector is a scheduler of its own (it empties sync.Pool caches, for one): it runs between
	// executions, never inside one
	debug.SetGCPercent(-1)
	if !c20Instrumented() {
		fmt.Println("c20points: NOT-INSTRUMENTED")
		return 2
	}
	_, c20InitPer = c20PkgHash()
	kinds := []int{0, 1, 2, 3} // 3: a pair on the system's randomness source (package state only)
	if shard == 0 {
		for _, k := range kinds {
			p, a, fs := c20Invariance(seed, k)
			fmt.Printf("c20points: invariance script=%d points=%d access_points=%d modified=%d\n", k, p, a, len(fs))
			for _, f := range fs {
				fmt.Println("FINDING\t" + f)
			}
		}
	}
	type pairCfg struct {
		Kinds     [2]int
		AllPoints bool // preempt at every function entry, not only at accesses to package-level variables
		Depth     int  // preemption bound
	}
	cfgs := []pairCfg{{[2]int{0, 1}, false, 1}, {[2]int{2, 0}, false, 1}, {[2]int{1, 1}, false, 1}}
	if tier == "thorough" {
		cfgs = []pairCfg{{[2]int{0, 1}, true, 1}, {[2]int{2, 0}, true, 1}, {[2]int{1, 2}, true, 1}, {[2]int{1, 1}, true, 1}, {[2]int{0, 0}, false, 1}, {[2]int{2, 2}, false, 1},
			{[2]int{0, 1}, false, 2}, {[2]int{2, 0}, false, 2}}
	}
	for _, cf := range cfgs {
		pr := cf.Kinds
		solo := [2][]string{c20Solo(seed, pr[0]), c20Solo(seed+100, pr[1])}
		_, cnt, _ := c20RunPreempt(seed, pr, 0, nil, cf.AllPoints)
		execs, bad, ix := 0, 0, 0
		reported := map[string]bool{}
		run := func(first int, plan []c20Switch) {
			ix++
			if ix%nshards != shard {
				return
			}
			tr, _, changed := c20RunPreempt(seed, pr, first, plan, cf.AllPoints)
			execs++
			if execs%8 == 0 {
				runtime.GC()
			}
			for i := 0; i < 2; i++ {
				if strings.Join(tr[i], "\n") != strings.Join(solo[i], "\n") {
					bad++
					pos := 0
					for pos < len(tr[i]) && pos < len(solo[i]) && tr[i][pos] == solo[i][pos] {
						pos++
					}
					sig := "C20:behaviour-differs-under-preemption"
					if !reported[sig] {
						reported[sig] = true
						fmt.Printf("FINDING\t%s\tscripts %v, thread %d first, preemptions %v: thread %d behaves differently from its solo run at step %d\n", sig, pr, first, plan, i, pos)
					}
				}
			}
			if changed && !reported["pkg"] {
				reported["pkg"] = true
				fmt.Printf("FINDING\tC20:package-state-modified-under-preemption\tscripts %v, thread %d first, preemptions %v: package-level state differs from its value after init at the end\n", pr, first, plan)
			}
		}
		for first := 0; first < 2; first++ {
			for k := 0; k < cnt[first]; k++ {
				if cf.Depth == 1 {
					run(first, []c20Switch{{first, k}})
					continue
				}
				// second preemption: the other thread is stopped at its j-th point and the first one finishes
				for j := 0; j < cnt[1-first]; j++ {
					run(first, []c20Switch{{first, k}, {1 - first, j}})
				}
			}
		}
		fmt.Printf("c20points: preemption scripts=%v all_function_entries=%v bound=%d points=%v executions=%d differing=%d shard=%d/%d\n", pr, cf.AllPoints, cf.Depth, cnt, execs, bad, shard, nshards)
	}
	return 0
}

var _ = os.Args
