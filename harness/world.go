//go:build verif

package otr3

import (
	"sync"
	"crypto/sha256"
	"encoding/binary"
	"errors"
	"fmt"
	"runtime"
	"strings"
)

// ---------------------------------------------------------------------------
// deterministic randomness source, one per principal

type verifDraw struct {
	Out []byte // the bytes handed out
	Dst []byte // alias of the destination buffer (C08 erasure check)
}

type verifDRBG struct {
	Seed    [32]byte
	Reads   int // number of reads answered so far (1-byte coin reads excluded)
	FailAt  int // index of the read that fails; <0: never
	FailAt2 int // a second failing read (error); <0: never
	Short   bool
	Script  [][]byte    // answers for the first reads of matching length (C15a)
	Keep    bool        // keep the log of draws
	Log     []verifDraw `verif:"nohash"`
}

func verifNewDRBG(seed int64, name string) *verifDRBG {
	d := &verifDRBG{FailAt: -1, FailAt2: -1}
	var b [8]byte
	binary.BigEndian.PutUint64(b[:], uint64(seed))
	d.Seed = sha256.Sum256(append(b[:], name...))
	return d
}

var errVerifRand = errors.New("verif: injected randomness failure")

func (d *verifDRBG) Read(p []byte) (int, error) {
	if len(p) == 1 {
		// crypto/internal/randutil.MaybeReadByte: a coin-flip read that must not shift the stream
		p[0] = 0
		return 1, nil
	}
	ix := d.Reads
	d.Reads++
	if ix == d.FailAt2 {
		return 0, errVerifRand
	}
	if ix == d.FailAt {
		if d.Short && len(p) > 1 {
			d.fill(ix, p[:len(p)/2])
			return len(p) / 2, errVerifRand
		}
		return 0, errVerifRand
	}
	if len(d.Script) > 0 && len(d.Script[0]) == len(p) {
		copy(p, d.Script[0])
		d.Script = d.Script[1:]
	} else {
		d.fill(ix, p)
	}
	if d.Keep {
		d.Log = append(d.Log, verifDraw{Out: append([]byte{}, p...), Dst: p})
	}
	return len(p), nil
}

func (d *verifDRBG) fill(ix int, p []byte) {
	var blk [48]byte
	copy(blk[:32], d.Seed[:])
	binary.BigEndian.PutUint64(blk[32:], uint64(ix))
	for off, n := 0, uint64(0); off < len(p); n++ {
		binary.BigEndian.PutUint64(blk[40:], n)
		s := sha256.Sum256(blk[:])
		off += copy(p[off:], s[:])
	}
}

// ---------------------------------------------------------------------------
// recorder: implements all handler interfaces, logs every event

type verifEvent struct {
	Kind byte // 'M' message event, 'S' security event, 'P' smp event, 'E' error message requested, 'K' symmetric key
	Code int
	Msg  []byte
	Err  string
	N    int
}

func (e verifEvent) String() string {
	switch e.Kind {
	case 'M':
		s := MessageEvent(e.Code).String()
		if e.Msg != nil {
			s += fmt.Sprintf("(%q)", e.Msg)
		}
		if e.Err != "" {
			s += "[" + e.Err + "]"
		}
		return s
	case 'S':
		return SecurityEvent(e.Code).String()
	case 'P':
		s := SMPEvent(e.Code).String()
		if e.Msg != nil {
			s += fmt.Sprintf("(q=%q)", e.Msg)
		}
		return s
	case 'E':
		return "ErrMsg:" + ErrorCode(e.Code).String()
	case 'K':
		return fmt.Sprintf("SymKey(usage=%d,data=%x,key=%x)", e.N, e.Msg, e.Err)
	}
	return "?"
}

type verifRecorder struct {
	Events []verifEvent
	// NoErrMsg: answer nil to HandleErrorMessage (then "?OTR Error: " alone is injected)
}

func (r *verifRecorder) HandleMessageEvent(event MessageEvent, message []byte, err error, trace ...interface{}) {
	e := verifEvent{Kind: 'M', Code: int(event)}
	if message != nil {
		e.Msg = append([]byte{}, message...)
	}
	if err != nil {
		e.Err = err.Error()
	}
	r.Events = append(r.Events, e)
}

func (r *verifRecorder) HandleSecurityEvent(event SecurityEvent) {
	r.Events = append(r.Events, verifEvent{Kind: 'S', Code: int(event)})
}

func (r *verifRecorder) HandleSMPEvent(event SMPEvent, progressPercent int, question string) {
	e := verifEvent{Kind: 'P', Code: int(event), N: progressPercent}
	if question != "" {
		e.Msg = []byte(question)
	}
	r.Events = append(r.Events, e)
}

func (r *verifRecorder) HandleErrorMessage(ec ErrorCode) []byte {
	r.Events = append(r.Events, verifEvent{Kind: 'E', Code: int(ec)})
	return []byte(fmt.Sprintf("verif-error-%d", int(ec)))
}

func (r *verifRecorder) ReceivedSymmetricKey(usage uint32, usageData []byte, symkey []byte) {
	r.Events = append(r.Events, verifEvent{Kind: 'K', N: int(usage), Msg: append([]byte{}, usageData...), Err: string(append([]byte{}, symkey...))})
}

func (r *verifRecorder) take() []verifEvent {
	ev := r.Events
	r.Events = nil
	return ev
}

func verifHasEvent(evs []verifEvent, kind byte, code int) bool {
	for _, e := range evs {
		if e.Kind == kind && e.Code == code {
			return true
		}
	}
	return false
}

func verifEventsString(evs []verifEvent) string {
	var ss []string
	for _, e := range evs {
		ss = append(ss, e.String())
	}
	return strings.Join(ss, ",")
}

// ---------------------------------------------------------------------------
// principals

type verifPrincipal struct {
	Name string
	C    *Conversation
	R    *verifDRBG
	Rec  *verifRecorder
}

type verifConvCfg struct {
	Name     string
	Seed     int64
	Policies policies
	Version  int // 0: negotiate; 2/3: pre-set
	Key      *DSAPrivateKey
	FragSize uint16
	NoErrMsg bool // do not install an error-message handler
	NoKeys   bool
}

func verifNewPrincipal(cfg verifConvCfg) *verifPrincipal {
	p := &verifPrincipal{Name: cfg.Name, R: verifNewDRBG(cfg.Seed, cfg.Name), Rec: &verifRecorder{}}
	c := &Conversation{}
	if cfg.Version == 2 {
		c.version = otrV2{}
	} else if cfg.Version == 3 {
		c.version = otrV3{}
	}
	c.Rand = p.R
	c.Policies = cfg.Policies
	if !cfg.NoKeys {
		c.SetOurKeys([]PrivateKey{cfg.Key})
		if c.version != nil {
			c.ourCurrentKey = cfg.Key
		}
	}
	c.SetSMPEventHandler(p.Rec)
	c.SetMessageEventHandler(p.Rec)
	c.SetSecurityEventHandler(p.Rec)
	c.SetReceivedKeyHandler(p.Rec)
	if !cfg.NoErrMsg {
		c.SetErrorMessageHandler(p.Rec)
	}
	c.SetFragmentSize(cfg.FragSize)
	p.C = c
	return p
}

// ---------------------------------------------------------------------------
// API calls under recover; the result of one call

type verifResult struct {
	Plain  []byte
	HasPln bool // plain != nil
	Out    [][]byte
	Err    string
	Events []verifEvent
	Panic  string // non-empty: the call panicked; value + top otr3 frame
	Key    []byte
	Alias  [][]byte `verif:"nohash"` // the slices exactly as the API returned them (C20 re-reads them later)
}

func verifPanicSite() string {
	pcs := make([]uintptr, 40)
	n := runtime.Callers(3, pcs)
	frames := runtime.CallersFrames(pcs[:n])
	for {
		f, more := frames.Next()
		if strings.Contains(f.Function, "coyim/otr3") && !strings.Contains(f.Function, "verif") && !strings.Contains(f.Function, "Verif") {
			fn := f.Function[strings.LastIndex(f.Function, "/")+1:]
			return fn
		}
		if !more {
			break
		}
	}
	return "?"
}

func (p *verifPrincipal) call(f func() ([]byte, []ValidMessage, error)) (res verifResult) {
	defer func() {
		if r := recover(); r != nil {
			res.Panic = fmt.Sprintf("%v @ %s", r, verifPanicSite())
			res.Events = p.Rec.take()
			verifNormTimes(p.C)
		}
	}()
	plain, out, err := f()
	if plain != nil {
		res.HasPln = true
		res.Plain = append([]byte{}, plain...)
	}
	for _, m := range out {
		res.Out = append(res.Out, append([]byte{}, m...))
		res.Alias = append(res.Alias, m)
	}
	if err != nil {
		res.Err = err.Error()
	}
	res.Events = p.Rec.take()
	verifNormTimes(p.C)
	if verifTraceOn {
		fmt.Printf("   call on %s: plain=%q err=%q events=[%s] out=", p.Name, verifTrunc(res.Plain), res.Err, verifEventsString(res.Events))
		for _, o := range res.Out {
			fmt.Printf("[%s]", verifMsgKind(o))
		}
		fmt.Println()
	}
	return
}

func (p *verifPrincipal) Receive(m []byte) verifResult {
	return p.call(func() ([]byte, []ValidMessage, error) {
		pl, ts, e := p.C.Receive(ValidMessage(append([]byte{}, m...)))
		return pl, ts, e
	})
}

func (p *verifPrincipal) Send(m []byte) verifResult {
	return p.call(func() ([]byte, []ValidMessage, error) {
		ts, e := p.C.Send(ValidMessage(append([]byte{}, m...)))
		return nil, ts, e
	})
}

func (p *verifPrincipal) End() verifResult {
	return p.call(func() ([]byte, []ValidMessage, error) {
		ts, e := p.C.End()
		return nil, ts, e
	})
}

func (p *verifPrincipal) StartSMP(q string, secret []byte) verifResult {
	return p.call(func() ([]byte, []ValidMessage, error) {
		ts, e := p.C.StartAuthenticate(q, append([]byte{}, secret...))
		return nil, ts, e
	})
}

func (p *verifPrincipal) AnswerSMP(secret []byte) verifResult {
	return p.call(func() ([]byte, []ValidMessage, error) {
		ts, e := p.C.ProvideAuthenticationSecret(append([]byte{}, secret...))
		return nil, ts, e
	})
}

func (p *verifPrincipal) AbortSMP() verifResult {
	return p.call(func() ([]byte, []ValidMessage, error) {
		ts, e := p.C.AbortAuthentication()
		return nil, ts, e
	})
}

func (p *verifPrincipal) ExtraKey(usage uint32, data []byte) verifResult {
	var key []byte
	r := p.call(func() ([]byte, []ValidMessage, error) {
		k, ts, e := p.C.UseExtraSymmetricKey(usage, data)
		key = append([]byte{}, k...)
		return nil, ts, e
	})
	r.Key = key
	return r
}

func (p *verifPrincipal) Query() []byte {
	return append([]byte{}, p.C.QueryMessage()...)
}

// ---------------------------------------------------------------------------
// worlds: principals + network

type verifWorld struct {
	P   []*verifPrincipal
	Q   [][][]byte  // Q[i]: FIFO of messages on their way to principal i
	Mon interface{} // property-specific monitor state (pointer to a plain struct)
}

func (w *verifWorld) clone() *verifWorld { return verifClone(w) }

func (w *verifWorld) key() [16]byte { return verifHash(w) }

// push appends the output of principal from to the queue towards its peer (two-party worlds).
func (w *verifWorld) push(from int, out [][]byte) {
	to := 1 - from
	for _, m := range out {
		w.Q[to] = append(w.Q[to], m)
	}
}

func (w *verifWorld) pop(to int) []byte {
	m := w.Q[to][0]
	w.Q[to] = append([][]byte{}, w.Q[to][1:]...)
	return m
}

// deliverAll delivers in round-robin FIFO order until both queues are empty (or max steps).
func (w *verifWorld) deliverAll(max int, on func(to int, msg []byte, r verifResult)) bool {
	for i := 0; i < max; i++ {
		progressed := false
		for to := 0; to < 2; to++ {
			if len(w.Q[to]) == 0 {
				continue
			}
			m := w.pop(to)
			r := w.P[to].Receive(m)
			w.push(to, r.Out)
			if on != nil {
				on(to, m, r)
			}
			progressed = true
		}
		if !progressed {
			return true
		}
	}
	return len(w.Q[0]) == 0 && len(w.Q[1]) == 0
}

// long-term keys, generated once per process from the seed (immutable afterwards, shared by clones)
var verifKeys = map[string]*DSAPrivateKey{}

var verifKeysMu sync.Mutex

func verifKey(seed int64, name string) *DSAPrivateKey {
	// checks call this from parallel workers: one key per id, generated once
	verifKeysMu.Lock()
	defer verifKeysMu.Unlock()
	id := fmt.Sprintf("%d/%s", seed, name)
	if k, ok := verifKeys[id]; ok {
		return k
	}
	k := &DSAPrivateKey{}
	if err := k.Generate(verifNewDRBG(seed, "dsa-key-"+name)); err != nil {
		panic(err)
	}
	verifKeys[id] = k
	return k
}

type verifPairCfg struct {
	Seed         int64
	VA, VB       int // preset versions (0 = negotiate)
	PolA, PolB   policies
	FragA, FragB uint16
	NoErrMsg     bool
}

func verifNewPair(cfg verifPairCfg) *verifWorld {
	a := verifNewPrincipal(verifConvCfg{Name: "A", Seed: cfg.Seed, Policies: cfg.PolA, Version: cfg.VA, Key: verifKey(cfg.Seed, "A"), FragSize: cfg.FragA, NoErrMsg: cfg.NoErrMsg})
	b := verifNewPrincipal(verifConvCfg{Name: "B", Seed: cfg.Seed, Policies: cfg.PolB, Version: cfg.VB, Key: verifKey(cfg.Seed, "B"), FragSize: cfg.FragB, NoErrMsg: cfg.NoErrMsg})
	return &verifWorld{P: []*verifPrincipal{a, b}, Q: make([][][]byte, 2)}
}

func verifPolFor(v int) policies {
	switch v {
	case 2:
		return policies(allowV2)
	case 3:
		return policies(allowV3)
	}
	return policies(allowV2 | allowV3)
}

// verifEstablished returns a two-party world with a completed AKE (A's query answered by B's commit).
func verifEstablished(seed int64, version int, frag uint16) *verifWorld {
	w := verifNewPair(verifPairCfg{Seed: seed, PolA: verifPolFor(version), PolB: verifPolFor(version), FragA: frag, FragB: frag})
	w.Q[1] = append(w.Q[1], w.P[0].Query())
	if !w.deliverAll(40, nil) || !w.P[0].C.IsEncrypted() || !w.P[1].C.IsEncrypted() {
		panic("verif: could not establish a session")
	}
	return w
}
