//go:build verif

package otr3

import (
	"bytes"
	"fmt"
	"runtime"
	"strings"
	"sync"
)

// C04 — exactly-once, in-order, unchanged delivery across DH key rotation.
// Every interleaving of sends and deliveries of two parties over two FIFO queues.

type monC04 struct {
	Sent   [2][][]byte
	Recv   [2][][]byte
	Budget [2]int
	Side   int     // remaining side-traffic events
	Asked  [2]bool // principal i was asked for an SMP secret
	SMPRun bool    // an SMP run has been started (only one per path)
	NSucc  int
}

// content set at the padding / encoding boundaries (no NUL bytes)
func verifC04Text(who, k int) []byte {
	lens := []int{1, 250, 251, 252, 255, 256, 257, 511, 3, 17}
	l := lens[(who*3+k*2+k/5)%len(lens)]
	head := fmt.Sprintf("%c%d:", 'a'+who, k)
	fill := []byte{0x01, 0x7f, 0x80, 0xff, ' ', '?', 'O', 'T', 'R', ':', '\t', '\n'}
	b := []byte(head)
	for i := 0; len(b) < l; i++ {
		b = append(b, fill[(i+k+who)%len(fill)])
	}
	if k%4 == 3 {
		b = append(b, ' ', ' ')
	}
	return b
}

func verifC04ID(v int, frag uint16, s, side int) string {
	return fmt.Sprintf("v%d/f%d/S%d/side%d", v, frag, s, side)
}

func verifC04Sys(id string, seed int64) *verifSys {
	var v, s, side int
	var frag uint16
	if _, err := fmt.Sscanf(id, "v%d/f%d/S%d/side%d", &v, &frag, &s, &side); err != nil {
		return nil
	}
	sys := &verifSys{Prop: "C04", ID: id, Seed: seed}
	sys.Init = func() *verifWorld {
		w := verifEstablished(seed, v, frag)
		w.Mon = &monC04{Budget: [2]int{s, s}, Side: side}
		return w
	}
	sys.Evs = func(w *verifWorld) []verifEv {
		m := w.Mon.(*monC04)
		var evs []verifEv
		for i := 0; i < 2; i++ {
			if len(w.Q[i]) > 0 {
				evs = append(evs, verifEv{K: "deliver", I: i})
			}
		}
		for i := 0; i < 2; i++ {
			if m.Budget[i] > 0 {
				evs = append(evs, verifEv{K: "send", I: i})
			}
		}
		for i := 0; i < 2; i++ {
			if m.Asked[i] {
				evs = append(evs, verifEv{K: "smpanswer", I: i})
			}
		}
		if m.Side > 0 {
			for i := 0; i < 2; i++ {
				evs = append(evs, verifEv{K: "tick", I: i})
				evs = append(evs, verifEv{K: "extrakey", I: i})
				if !m.SMPRun {
					evs = append(evs, verifEv{K: "smpstart", I: i})
				}
			}
		}
		return evs
	}
	sys.Apply = func(w *verifWorld, e verifEv) []verifFinding {
		m := w.Mon.(*monC04)
		var fs []verifFinding
		p := w.P[e.I]
		var r verifResult
		switch e.K {
		case "send":
			k := s - m.Budget[e.I]
			m.Budget[e.I]--
			t := verifC04Text(e.I, k)
			m.Sent[e.I] = append(m.Sent[e.I], t)
			r = p.Send(t)
			if r.Err != "" {
				fs = append(fs, verifFinding{"C04:send-error", "Send failed in an encrypted session: " + r.Err})
			}
			if len(r.Out) == 0 {
				fs = append(fs, verifFinding{"C04:send-nothing", "Send produced no message"})
			}
		case "deliver":
			msg := w.pop(e.I)
			r = p.Receive(msg)
			if r.Err != "" {
				fs = append(fs, verifFinding{"C04:receive-error:" + verifErrClass(r.Err), "Receive failed on a reliable FIFO network: " + r.Err})
			}
			if r.HasPln {
				n := len(m.Recv[e.I])
				m.Recv[e.I] = append(m.Recv[e.I], r.Plain)
				sent := m.Sent[1-e.I]
				if n >= len(sent) {
					fs = append(fs, verifFinding{"C04:spurious-plaintext", fmt.Sprintf("%s received %q which was never sent (or twice)", p.Name, verifTrunc(r.Plain))})
				} else if !bytes.Equal(sent[n], r.Plain) {
					fs = append(fs, verifFinding{"C04:wrong-plaintext", fmt.Sprintf("%s received %q, expected message #%d %q", p.Name, verifTrunc(r.Plain), n, verifTrunc(sent[n]))})
				}
			}
		case "tick":
			m.Side--
			verifTick(p.C)
			return nil
		case "extrakey":
			m.Side--
			r = p.ExtraKey(7, []byte("usage"))
			if r.Err != "" {
				fs = append(fs, verifFinding{"C04:extrakey-error", r.Err})
			}
		case "smpstart":
			m.Side--
			m.SMPRun = true
			r = p.StartSMP("", []byte("secret"))
			if r.Err != "" {
				fs = append(fs, verifFinding{"C04:smp-error", r.Err})
			}
		case "smpanswer":
			m.Asked[e.I] = false
			r = p.AnswerSMP([]byte("secret"))
			if r.Err != "" {
				fs = append(fs, verifFinding{"C04:smp-error", r.Err})
			}
		}
		if r.Panic != "" {
			fs = append(fs, verifFinding{"C04:panic:" + verifPanicClass(r.Panic), r.Panic})
		}
		w.push(e.I, r.Out)
		for _, ev := range r.Events {
			if ev.Kind == 'M' {
				switch MessageEvent(ev.Code) {
				case MessageEventLogHeartbeatReceived, MessageEventLogHeartbeatSent:
				default:
					fs = append(fs, verifFinding{"C04:event:" + MessageEvent(ev.Code).String(), fmt.Sprintf("%s raised %s during %s on a reliable network", p.Name, ev, e)})
				}
			}
			if ev.Kind == 'P' {
				switch SMPEvent(ev.Code) {
				case SMPEventAskForSecret:
					m.Asked[e.I] = true
				case SMPEventSuccess:
					m.NSucc++
				case SMPEventInProgress:
				default:
					fs = append(fs, verifFinding{"C04:smp-event:" + SMPEvent(ev.Code).String(), fmt.Sprintf("%s raised %s (equal secrets, honest run)", p.Name, ev)})
				}
			}
			if ev.Kind == 'S' {
				fs = append(fs, verifFinding{"C04:security-event:" + ev.String(), "security event inside an established session"})
			}
		}
		return fs
	}
	sys.Final = func(w *verifWorld) []verifFinding {
		m := w.Mon.(*monC04)
		var fs []verifFinding
		for i := 0; i < 2; i++ {
			if len(m.Recv[i]) != len(m.Sent[1-i]) {
				fs = append(fs, verifFinding{"C04:lost", fmt.Sprintf("%s received %d of %d texts at quiescence", w.P[i].Name, len(m.Recv[i]), len(m.Sent[1-i]))})
			}
		}
		if m.SMPRun && m.NSucc != 2 {
			fs = append(fs, verifFinding{"C04:smp-incomplete", fmt.Sprintf("SMP with equal secrets ended with %d success events", m.NSucc)})
		}
		return fs
	}
	sys.Label = func(w *verifWorld) string {
		m := w.Mon.(*monC04)
		return fmt.Sprintf("recvA=%d recvB=%d keyidsA=%d/%d keyidsB=%d/%d smp=%d", len(m.Recv[0]), len(m.Recv[1]),
			w.P[0].C.keys.ourKeyID, w.P[0].C.keys.theirKeyID, w.P[1].C.keys.ourKeyID, w.P[1].C.keys.theirKeyID, m.NSucc)
	}
	return sys
}

type c04SweepCase struct {
	Ver  int `json:"version"`
	Pos  int `json:"ratchet_position"`
	Text int `json:"text"`
	Size int `json:"fragment_size"`
}

// c04SweepEval: one text, one fragment size, at one ratchet position: delivered exactly once and unchanged
func c04SweepEval(base *verifWorld, c c04SweepCase) *verifFinding {
	w := base.clone()
	A, B := w.P[0], w.P[1]
	A.C.SetFragmentSize(uint16(c.Size))
	t := verifC04Text(0, c.Text)
	r := A.Send(t)
	if r.Panic != "" || r.Err != "" {
		return &verifFinding{"C04:fragment-sweep:send-failed", fmt.Sprintf("v%d pos %d text #%d size %d: Send failed: %s%s", c.Ver, c.Pos, c.Text, c.Size, r.Err, r.Panic)}
	}
	got := 0
	for _, piece := range r.Out {
		rr := B.Receive(piece)
		if rr.Panic != "" {
			return &verifFinding{"C04:fragment-sweep:panic", rr.Panic}
		}
		if rr.Err != "" {
			return &verifFinding{"C04:fragment-sweep:receive-error", fmt.Sprintf("v%d pos %d text #%d (%d bytes) fragment size %d (%d pieces): Receive failed: %s", c.Ver, c.Pos, c.Text, len(t), c.Size, len(r.Out), rr.Err)}
		}
		if rr.HasPln {
			got++
			if !bytes.Equal(rr.Plain, t) {
				return &verifFinding{"C04:fragment-sweep:altered", fmt.Sprintf("v%d pos %d text #%d size %d: delivered text differs", c.Ver, c.Pos, c.Text, c.Size)}
			}
		}
	}
	if got != 1 {
		return &verifFinding{"C04:fragment-sweep:lost", fmt.Sprintf("v%d pos %d text #%d (%d bytes) fragment size %d (%d pieces): delivered %d times", c.Ver, c.Pos, c.Text, len(t), c.Size, len(r.Out), got)}
	}
	return nil
}

func c04SweepBase(seed int64, v, pos int) *verifWorld {
	w := verifEstablished(seed, v, 0)
	for k := 0; k < pos; k++ {
		for i := 0; i < 2; i++ {
			r := w.P[i].Send([]byte(fmt.Sprintf("warm-up %d/%d", k, i)))
			w.push(i, r.Out)
			w.deliverAll(10, nil)
		}
	}
	w.P[0].Rec.take()
	w.P[1].Rec.take()
	return w
}

// verifC04FragSweep: every fragment size in a range × every text of the content set × several ratchet positions
func verifC04FragSweep(r *verifReport) {
	lo, hi := 20, 330
	if r.Tier == "thorough" {
		hi = 1200
	}
	var mu sync.Mutex
	var wg sync.WaitGroup
	jobs := make(chan struct {
		base *verifWorld
		c    c04SweepCase
	}, 256)
	var n, frag int64
	for k := 0; k < runtime.NumCPU(); k++ {
		wg.Add(1)
		go func() {
			defer wg.Done()
			for j := range jobs {
				f := c04SweepEval(j.base, j.c)
				mu.Lock()
				n++
				if f != nil {
					r.addCase("C04", f.Sig, f.Detail, j.c)
				}
				mu.Unlock()
			}
		}()
	}
	for _, v := range []int{3, 2} {
		for pos := 0; pos < 3; pos++ {
			base := c04SweepBase(r.Seed, v, pos)
			for ti := 0; ti < 10; ti++ {
				for s := lo; s <= hi; s++ {
					jobs <- struct {
						base *verifWorld
						c    c04SweepCase
					}{base, c04SweepCase{v, pos, ti, s}}
					frag++
				}
			}
		}
	}
	close(jobs)
	wg.Wait()
	r.Evals += n
	r.Nontrivial += n
	r.Extra["fragment_sweep_cases"] = n
	r.sample(map[string]interface{}{"fragment_sweep": c04SweepCase{3, 1, 4, 77}})
}

func verifTrunc(b []byte) string {
	if len(b) > 24 {
		return string(b[:24]) + fmt.Sprintf("…(%dB)", len(b))
	}
	return string(b)
}

func verifErrClass(e string) string {
	e = strings.TrimPrefix(e, "otr: ")
	if len(e) > 40 {
		e = e[:40]
	}
	return strings.ReplaceAll(e, " ", "-")
}

func verifPanicClass(p string) string {
	// keep the otr3 frame only: "… @ otr3.(*dataMsg).deserialize"
	if i := strings.LastIndex(p, " @ "); i >= 0 {
		return p[i+3:]
	}
	return "?"
}

func init() {
	verifChecks["C04"] = &verifCheck{
		Level: "model_checking",
		Build: verifC04Sys,
		ReplayCase: func(cj string, seed int64) []verifFinding {
			var c c04SweepCase
			if jsonUnmarshal(cj, &c) != nil {
				return nil
			}
			if f := c04SweepEval(c04SweepBase(seed, c.Ver, c.Pos), c); f != nil {
				return []verifFinding{*f}
			}
			return nil
		},
		Run: func(r *verifReport) {
			r.Rule = "every interleaving of Send/deliver steps of two parties over two FIFO queues from an established session, per-side send budget S, optional side traffic (tick→heartbeat, extra key, one SMP run); states deduplicated by exact hash of both conversations, queues and monitor; oracle: delivered list is always a prefix of the peer's sent list, equal at quiescence, no error/unreadable event; plus a sweep: every fragment size 20..330 (thorough ..1200) × every text of the content set × 3 ratchet positions, sent fragmented and delivered in order: exactly once, unchanged"
			r.Assumptions = []string{"texts come from a fixed content set at padding/encoding boundaries (lengths 1,3,17,250..257,511; bytes 0x01,0x7f,0x80,0xff, OTR-looking characters), not all contents", "virtual two-valued clock (recent/long ago)"}
			type cfg struct {
				v       int
				f       uint16
				s, side int
			}
			var cfgs []cfg
			if r.Tier == "quick" {
				cfgs = []cfg{{3, 0, 3, 0}, {2, 0, 3, 0}, {3, 120, 2, 0}, {2, 100, 2, 0}, {3, 0, 1, 2}, {2, 0, 1, 1}}
			} else {
				cfgs = []cfg{{3, 0, 4, 0}, {2, 0, 4, 0}, {3, 120, 3, 0}, {2, 100, 3, 0}, {3, 0, 2, 2}, {2, 0, 2, 2}, {3, 200, 1, 2}, {3, 0, 5, 0}}
			}
			for _, c := range cfgs {
				r.explore(verifC04Sys(verifC04ID(c.v, c.f, c.s, c.side), r.Seed))
			}
			verifC04FragSweep(r)
		},
	}
}
