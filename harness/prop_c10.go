//go:build verif

package otr3

import (
	"bytes"
	"crypto/dsa"
	"crypto/sha256"
	"encoding/binary"
	"fmt"
	"math/big"
	"strings"
	"sync"

	ref "github.com/coyim/otr3/verifref"
)

// C10 — everything on the wire is what the OTR v2/v3 specification prescribes.
// (a) every message emitted in explored session histories is re-derived by the independent
//     implementation verifref from both sides' secrets (taken from the randomness logs and
//     matched to the wire by verification, never by call site);
// (b) a reference peer written from the specification talks to the real conversation.

var c10PubCache sync.Map

func c10Pub(d []byte) *big.Int {
	if v, ok := c10PubCache.Load(string(d)); ok {
		return v.(*big.Int)
	}
	y := new(big.Int).Exp(ref.G, new(big.Int).SetBytes(d), ref.P)
	c10PubCache.Store(string(d), y)
	return y
}

type c10Exchange struct {
	X      []byte // our exponent
	GX     []byte
	R      []byte
	Commit bool
	Their  []byte // the peer's public value, once known
	SSID   [8]byte
	Done   bool
}

type c10Party struct {
	All       [][]byte    // every draw of the randomness source, in order (SMP exponents are found among them by verification)
	Seen      int         // randomness log entries looked at
	Exps      [][]byte    // all 40-byte draws, in order
	Rs        [][]byte    // all 16-byte draws
	Ex        c10Exchange // exchange in progress / last completed
	Sess      [][]byte    // exponents of the session's DH keys: key id k ↔ Sess[k-1]
	SessFrom  int         // number of 40-byte draws that existed when the session was established
	TheirPubs [][]byte    // the peer's D-H keys as announced to us: key id k ↔ TheirPubs[k-1] (their_keyid = len)
	AllOwn    [][]byte    // session keys of earlier sessions (their MAC keys may still be disclosed)
	AllTheir  [][]byte
	Asm       refAsm // reassembly of fragments delivered to us (to read what they announce)
	Ctr       []ref.PairCtr
	Pending   [][]byte // texts handed to Send that must appear in the data messages of that call
}

type monC10 struct {
	P        [2]c10Party
	Budget   [2]int
	NSMP     int
	NKey     int
	NEnd     int
	NRefresh int
	Asked    [2]bool
	Started  bool
	Checked  int
	ByKind   []int // per message kind: number re-derived
	ExtraOut [][]byte
	SMP      ref.SMPRun // the SMP run in progress, followed from the TLVs on the wire
	SMPInit  int        // who started it
	SMPSeen  int        // SMP messages re-derived
}

func (m *monC10) bump(kind int) {
	for len(m.ByKind) <= kind {
		m.ByKind = append(m.ByKind, 0)
	}
	m.ByKind[kind]++
	m.Checked++
}

func c10Absorb(pt *c10Party, p *verifPrincipal) {
	for ; pt.Seen < len(p.R.Log); pt.Seen++ {
		d := p.R.Log[pt.Seen].Out
		pt.All = append(pt.All, d)
		switch len(d) {
		case 40:
			pt.Exps = append(pt.Exps, d)
		case 16:
			pt.Rs = append(pt.Rs, d)
		}
	}
}

func c10RefPub(k PublicKey) ref.PubKey {
	d := k.(*DSAPublicKey)
	return ref.PubKey{P: d.P, Q: d.Q, G: d.G, Y: d.Y}
}

// c10CheckMessage re-derives one message emitted by principal i
func c10CheckMessage(w *verifWorld, i int, msg []byte, fromSend []byte) (fs []verifFinding) {
	m := w.Mon.(*monC10)
	me, peer := &m.P[i], &m.P[1-i]
	pr := w.P[i]
	bad := func(sig, format string, a ...interface{}) {
		fs = append(fs, verifFinding{"C10:" + sig, fmt.Sprintf("%s: ", pr.Name) + fmt.Sprintf(format, a...)})
	}
	s := string(msg)
	switch {
	case strings.HasPrefix(s, "?OTR Error:"):
		m.bump(7)
		return
	case strings.HasPrefix(s, "?OTRv") || strings.HasPrefix(s, "?OTR?"):
		want := "?OTRv"
		if pr.C.Policies.has(allowV2) {
			want += "2"
		}
		if pr.C.Policies.has(allowV3) {
			want += "3"
		}
		want += "?"
		if s != want {
			bad("query-format", "query message %q, the specification's form for this policy is %q", s, want)
		}
		m.bump(6)
		return
	case !strings.HasPrefix(s, "?OTR:"):
		return
	}
	raw, ok := ref.Unarmor(msg)
	if !ok {
		bad("armour", "emitted message is not ?OTR:<base64>.")
		return
	}
	h, body, ok := ref.ParseHeader(raw)
	if !ok {
		bad("header", "header does not parse")
		return
	}
	if int(h.Version) != int(pr.C.version.protocolVersion()) {
		bad("header-version", "version field %d", h.Version)
	}
	if h.Version == 3 {
		if h.Sender != pr.C.ourInstanceTag || h.Sender < 0x100 {
			bad("header-sender-tag", "sender tag %#x, own tag %#x", h.Sender, pr.C.ourInstanceTag)
		}
		if h.Receiver != 0 && h.Receiver != w.P[1-i].C.ourInstanceTag {
			bad("header-receiver-tag", "receiver tag %#x, the peer's tag is %#x", h.Receiver, w.P[1-i].C.ourInstanceTag)
		}
	}
	switch h.Type {
	case ref.TypeDHCommit:
		c, ok := ref.ParseDHCommit(body)
		if !ok {
			bad("commit-format", "D-H Commit does not parse")
			return
		}
		found := false
		for _, x := range me.Exps {
			gx := c10Pub(x)
			hh := sha256.Sum256(ref.MPI(gx))
			if !bytes.Equal(hh[:], c.HashGx) {
				continue
			}
			for _, r := range me.Rs {
				if ref.CheckCommit(c, r, gx) {
					found = true
					if !bytes.Equal(me.Ex.X, x) {
						me.Ex = c10Exchange{X: x, GX: gx.Bytes(), R: r, Commit: true}
					}
				}
			}
		}
		if !found {
			bad("commit-not-derivable", "no exponent x and value r drawn by the sender give this D-H Commit (hash = SHA256(MPI(g^x)), ciphertext = AES-CTR_r(MPI(g^x)))")
		}
		if !bytes.Equal(c.Body(), body) {
			bad("commit-layout", "D-H Commit has trailing or non-canonical bytes")
		}
		m.bump(0)
	case ref.TypeDHKey:
		gy, ok := ref.ParseDHKey(body)
		if !ok {
			bad("dhkey-format", "D-H Key does not parse")
			return
		}
		found := false
		for _, y := range me.Exps {
			if c10Pub(y).Cmp(gy) == 0 {
				found = true
				if !bytes.Equal(me.Ex.X, y) {
					me.Ex = c10Exchange{X: y, GX: gy.Bytes()}
				}
			}
		}
		if !found {
			bad("dhkey-not-derivable", "the D-H Key value is not g^y for any exponent the sender drew")
		}
		if !bytes.Equal(ref.MPI(gy), body) {
			bad("dhkey-layout", "D-H Key is not a single minimal MPI")
		}
		m.bump(1)
	case ref.TypeRevealSig, ref.TypeSig:
		var enc, mac []byte
		if h.Type == ref.TypeRevealSig {
			rs, ok := ref.ParseRevealSig(body)
			if !ok {
				bad("revealsig-format", "Reveal Signature does not parse")
				return
			}
			if !bytes.Equal(rs.R, me.Ex.R) {
				bad("revealsig-r", "revealed r is not the one the commit was built with")
			}
			if !bytes.Equal(rs.Body(), body) {
				bad("revealsig-layout", "non-canonical layout")
			}
			enc, mac = rs.EncSig, rs.MAC
		} else {
			sg, ok := ref.ParseSig(body)
			if !ok {
				bad("sig-format", "Signature message does not parse")
				return
			}
			if !bytes.Equal(sg.Body(), body) {
				bad("sig-layout", "non-canonical layout")
			}
			enc, mac = sg.EncSig, sg.MAC
		}
		if me.Ex.X == nil {
			bad("ake-no-exponent", "signature message without a known own exponent")
			return
		}
		x := new(big.Int).SetBytes(me.Ex.X)
		gx := new(big.Int).SetBytes(me.Ex.GX)
		// the peer's public value: the one (among everything the peer generated) under which the MAC verifies
		var keys ref.AKEKeys
		var theirs *big.Int
		for _, e := range peer.Exps {
			cand := c10Pub(e)
			k := ref.DeriveAKE(new(big.Int).Exp(cand, x, ref.P))
			m2, c := k.M2, k.C
			if h.Type == ref.TypeSig {
				m2, c = k.M2p, k.Cp
			}
			_ = c
			if bytes.Equal(ref.SigMAC(m2, enc), mac) {
				keys, theirs = k, cand
			}
		}
		if theirs == nil {
			bad("ake-mac", "the MAC on the encrypted signature is not HMAC-SHA256-160(m2, DATA(enc)) for the secret shared with any value the peer generated")
			return
		}
		me.Ex.Their, me.Ex.SSID = theirs.Bytes(), keys.SSID
		c, m1 := keys.C, keys.M1
		if h.Type == ref.TypeSig {
			c, m1 = keys.Cp, keys.M1p
		}
		xb, ok := ref.OpenXB(c, enc)
		if !ok {
			bad("ake-xb-layout", "the signature block does not decrypt (AES-CTR under c, zero counter) to pubkey, keyid, 40-byte signature")
			return
		}
		own := c10RefPub(pr.C.ourKeys[0].PublicKey())
		if !bytes.Equal(xb.Pub.Bytes(), own.Bytes()) {
			bad("ake-xb-pubkey", "the signature block does not carry the sender's long-term public key")
		}
		if xb.KeyID != 1 {
			bad("ake-xb-keyid", "key id %d in the signature block (the first D-H key of a session has id 1)", xb.KeyID)
		}
		if !xb.Pub.Verify(ref.MB(m1, gx, theirs, xb.Pub, xb.KeyID), xb.R, xb.S) {
			bad("ake-signature", "the DSA signature is not valid over M = HMAC-SHA256(m1, g^x, g^y, pub, keyid)")
		}
		m.bump(2 + int(h.Type-ref.TypeRevealSig))
	case ref.TypeData:
		fs = append(fs, c10CheckData(w, i, raw, fromSend)...)
	default:
		bad("unknown-type", "message type %#x", h.Type)
	}
	_ = peer
	return
}

func c10CheckData(w *verifWorld, i int, raw []byte, fromSend []byte) (fs []verifFinding) {
	m := w.Mon.(*monC10)
	me, peer := &m.P[i], &m.P[1-i]
	pr := w.P[i]
	bad := func(sig, format string, a ...interface{}) {
		fs = append(fs, verifFinding{"C10:" + sig, fmt.Sprintf("%s: ", pr.Name) + fmt.Sprintf(format, a...)})
	}
	d, ok := ref.ParseData(raw)
	if !ok {
		bad("data-format", "data message does not parse")
		return
	}
	if len(d.Revealed)%20 != 0 {
		bad("data-revealed-length", "old MAC keys field of %d bytes", len(d.Revealed))
	}
	// every disclosed value must be a receiving MAC key of the discloser for one of the key pairs the reference knows of
	for off := 0; off+20 <= len(d.Revealed); off += 20 {
		rk := d.Revealed[off : off+20]
		found := false
		for _, hist := range [][][]byte{me.AllOwn, me.Sess} {
			for _, own := range hist {
				for _, their := range append(append([][]byte{}, me.AllTheir...), me.TheirPubs...) {
					op, tp := c10Pub(own), new(big.Int).SetBytes(their)
					k := ref.DeriveData(op, tp, new(big.Int).Exp(tp, new(big.Int).SetBytes(own), ref.P))
					if bytes.Equal(k.RecvMAC, rk) {
						found = true
					}
				}
			}
		}
		if !found {
			bad("data-revealed-not-a-mac-key", "the old MAC keys field discloses %x…, which is not the receiving MAC key of any key pair of the discloser", rk[:6])
		}
	}
	if int(d.SKeyID) < 1 || int(d.SKeyID) > len(me.Sess) || int(d.RKeyID) < 1 || int(d.RKeyID) > len(me.TheirPubs) {
		bad("data-keyids", "key ids %d/%d, the sender holds %d own keys and was told about %d keys of the peer", d.SKeyID, d.RKeyID, len(me.Sess), len(me.TheirPubs))
		return
	}
	// the specification's ratchet: sender_keyid = our_keyid-1, next key = our most recent, recipient = their_keyid
	if int(d.SKeyID) != len(me.Sess)-1 {
		bad("data-sender-keyid", "sender key id %d, the specification says our_keyid-1 = %d", d.SKeyID, len(me.Sess)-1)
	}
	if int(d.RKeyID) != len(me.TheirPubs) {
		bad("data-recipient-keyid", "recipient key id %d, the most recent key the peer announced is %d", d.RKeyID, len(me.TheirPubs))
	}
	newest := c10Pub(me.Sess[len(me.Sess)-1])
	if d.Y.Cmp(newest) != 0 {
		bad("data-next-dh", "the advertised next D-H key is not the sender's most recent key")
	}
	x := new(big.Int).SetBytes(me.Sess[d.SKeyID-1])
	ourPub := c10Pub(me.Sess[d.SKeyID-1])
	theirPub := new(big.Int).SetBytes(me.TheirPubs[d.RKeyID-1])
	_ = peer
	k := ref.DeriveData(ourPub, theirPub, new(big.Int).Exp(theirPub, x, ref.P))
	macOK := bytes.Equal(d.MAC, c10HMAC1(k.SendMAC, d.Auth))
	if !macOK {
		bad("data-mac", "MAC is not HMAC-SHA1(SHA1(sending AES key), header+body) for the key pair (%d,%d) with the high/low-end rule", d.SKeyID, d.RKeyID)
	}
	cv := binary.BigEndian.Uint64(d.Ctr[:])
	var pc *ref.PairCtr
	for j := range me.Ctr {
		if me.Ctr[j].Our == d.SKeyID && me.Ctr[j].Their == d.RKeyID {
			pc = &me.Ctr[j]
		}
	}
	if pc == nil {
		me.Ctr = append(me.Ctr, ref.PairCtr{Our: d.SKeyID, Their: d.RKeyID})
		pc = &me.Ctr[len(me.Ctr)-1]
	}
	if cv != pc.Send+1 {
		bad("data-counter", "counter %d for key pair (%d,%d), expected %d (starts at 1, +1 per message)", cv, d.SKeyID, d.RKeyID, pc.Send+1)
	}
	pc.Send = cv
	plain := d.Decrypt(k.SendAES)
	text, tlvs, ok := ref.ParsePlain(plain)
	if !ok {
		bad("data-plaintext-layout", "decrypted payload is not text, NUL, TLVs")
		return
	}
	if fromSend != nil {
		if !bytes.Equal(text, fromSend) {
			bad("data-text", "decrypted text %q differs from the text given to Send %q", verifTrunc(text), verifTrunc(fromSend))
		}
	}
	if len(tlvs) == 0 || tlvs[len(tlvs)-1].Type != 0 {
		// padding is optional in the specification; nothing to check
	}
	for _, t := range tlvs {
		if t.Type == 8 {
			m.ExtraOut = append(m.ExtraOut, k.Extra)
		}
		if t.Type >= 2 && t.Type <= 7 && t.Type != 6 {
			// SMP: verified and re-derived by the independent implementation from the sender's randomness log
			if t.Type == 2 || t.Type == 7 {
				m.SMPInit = i
				fpI, fpR := c10RefPub(w.P[i].C.ourKeys[0].PublicKey()).Fingerprint(), c10RefPub(w.P[1-i].C.ourKeys[0].PublicKey()).Fingerprint()
				m.SMP = ref.SMPRun{InitFP: fpI, RespFP: fpR, SSID: me.Ex.SSID, Secret: []byte("s")}
			}
			c10Absorb(me, pr)
			for _, problem := range m.SMP.Check(t, i == m.SMPInit, me.All) {
				bad("smp", "SMP TLV %d: %s", t.Type, problem)
			}
			if t.Type == 7 && string(m.SMP.Question) != "q" {
				bad("smp", "SMP1Q carries the question %q, the user asked %q", m.SMP.Question, "q")
			}
			m.SMPSeen++
			verifCount(fmt.Sprintf("c10_smp_tlv_%d_rederived", t.Type), 1)
		}
	}
	// byte-exact reconstruction of the whole message from the derived keys
	rebuilt := ref.BuildData(d.Hdr, d.Flags, d.SKeyID, d.RKeyID, d.Y, cv, plain, k, d.Revealed)
	if macOK && !bytes.Equal(rebuilt, raw) {
		bad("data-rebuild", "the message rebuilt by the reference from the derived keys differs from the emitted bytes")
	}
	m.bump(5)
	return
}

// c10CheckTrain: the pieces of one fragmented message, as the specification prescribes them: piece k of n carries
// index k, every piece announces the same total n, and exactly n pieces are sent
func c10CheckTrain(who string, g [][]byte) (fs []verifFinding) {
	if len(g) == 0 {
		return
	}
	if _, ok := refParseFragment(g[0]); !ok {
		return // not a fragment train
	}
	for k, u := range g {
		f, ok := refParseFragment(u)
		if !ok {
			return []verifFinding{{"C10:fragment-train", fmt.Sprintf("%s emitted a fragment train whose piece %d does not parse: %q", who, k+1, verifTrunc(u))}}
		}
		if f.K != k+1 || f.N != len(g) {
			return []verifFinding{{"C10:fragment-train", fmt.Sprintf("%s emitted %d piece(s); piece %d is labelled %d of %d", who, len(g), k+1, f.K, f.N)}}
		}
	}
	return
}

// c10FragmentSweep: every fragment size in a window that contains all alignments of piece size and message length
func c10FragmentSweep(r *verifReport) {
	n := 0
	for _, v := range []int{3, 2} {
		w0 := verifEstablished(r.Seed, v, 0)
		for size := 20; size <= 340; size++ {
			w := w0.clone()
			w.P[0].C.SetFragmentSize(uint16(size))
			res := w.P[0].Send([]byte("a text that is long enough to need a handful of pieces at every size in the window"))
			n++
			r.Evals++
			r.Nontrivial++
			for _, g := range verifGroupUnits(res.Out) {
				for _, f := range c10CheckTrain("A", g) {
					r.addCase("C10", f.Sig, f.Detail+fmt.Sprintf(" (v%d, fragment size %d)", v, size), map[string]int{"version": v, "fragment_size": size})
				}
				if len(g) > 1 {
					whole := verifReassemble(g)
					if raw, ok := ref.Unarmor(whole); !ok {
						r.addCase("C10", "C10:fragment-train", fmt.Sprintf("v%d size %d: the reassembled pieces are not an armoured message", v, size), map[string]int{"version": v, "fragment_size": size})
					} else if _, _, ok := ref.ParseHeader(raw); !ok {
						r.addCase("C10", "C10:fragment-train", fmt.Sprintf("v%d size %d: the reassembled message has no valid header", v, size), map[string]int{"version": v, "fragment_size": size})
					}
				}
			}
		}
	}
	r.Extra["fragment_sweep_sends"] = n
}

func c10HMAC1(key, data []byte) []byte {
	return c02MAC(key, nil, data)
}

// c10After: bookkeeping after a call on principal i (session establishment, key generations, announced keys)
func c10After(w *verifWorld, i int, r verifResult, delivered []byte) (fs []verifFinding) {
	m := w.Mon.(*monC10)
	me := &m.P[i]
	before := len(me.Exps)
	c10Absorb(me, w.P[i])
	established := verifHasEvent(r.Events, 'S', int(GoneSecure)) || verifHasEvent(r.Events, 'S', int(StillSecure))
	newExps := me.Exps[before:]
	if established {
		// handled after the messages of this call have been examined (c10Established)
		me.SessFrom = before
	} else if len(me.Sess) > 0 && w.P[i].C.IsEncrypted() {
		for _, e := range newExps {
			// a rotation draws a fresh key; an exponent used for a new exchange is recognised when its message appears
			isAKE := false
			for _, o := range r.Out {
				if raw, ok := ref.Unarmor(o); ok {
					if h, body, ok := ref.ParseHeader(raw); ok {
						if h.Type == ref.TypeDHKey {
							if gy, ok := ref.ParseDHKey(body); ok && c10Pub(e).Cmp(gy) == 0 {
								isAKE = true
							}
						}
						if h.Type == ref.TypeDHCommit {
							if c, ok := ref.ParseDHCommit(body); ok {
								hh := sha256.Sum256(ref.MPI(c10Pub(e)))
								if bytes.Equal(hh[:], c.HashGx) {
									isAKE = true
								}
							}
						}
					}
				}
			}
			if !isAKE {
				me.Sess = append(me.Sess, e)
			}
		}
	}
	// a delivered (possibly fragmented) data message announces the peer's next key
	if delivered != nil {
		whole := delivered
		if f, ok := refParseFragment(delivered); ok {
			whole = me.Asm.step(f)
		}
		if whole != nil && (r.HasPln || verifAccepted(r)) {
			if raw, ok := ref.Unarmor(whole); ok {
				if d, ok := ref.ParseData(raw); ok && int(d.SKeyID) == len(me.TheirPubs) && len(me.TheirPubs) > 0 {
					me.TheirPubs = append(me.TheirPubs, d.Y.Bytes())
				}
			}
		}
	}
	return
}

// c10Established: the call completed an exchange; the exchange's exponent is key 1, the key generated on
// completion is key 2, the peer's exchange value is its key 1
func c10Established(w *verifWorld, i int, r verifResult) (fs []verifFinding) {
	if !(verifHasEvent(r.Events, 'S', int(GoneSecure)) || verifHasEvent(r.Events, 'S', int(StillSecure))) {
		return
	}
	me := &w.Mon.(*monC10).P[i]
	if me.Ex.Their == nil {
		return []verifFinding{{"C10:established-without-exchange", fmt.Sprintf("%s reports a completed exchange that the reference could not follow", w.P[i].Name)}}
	}
	if w.P[i].C.GetSSID() != me.Ex.SSID {
		fs = append(fs, verifFinding{"C10:ssid", fmt.Sprintf("%s reports SSID %x, the specification derives %x from the shared secret", w.P[i].Name, w.P[i].C.GetSSID(), me.Ex.SSID)})
	}
	me.AllOwn = append(me.AllOwn, me.Sess...)
	me.AllTheir = append(me.AllTheir, me.TheirPubs...)
	me.Sess = [][]byte{me.Ex.X}
	me.Ctr = nil
	me.TheirPubs = [][]byte{me.Ex.Their}
	for _, e := range me.Exps[me.SessFrom:] {
		if !bytes.Equal(e, me.Ex.X) {
			me.Sess = append(me.Sess, e)
		}
	}
	me.Ex.Done = true
	return
}

// id: "v<2|3>/f<frag>/S<sends>/<smp|nosmp>"
func verifC10Sys(id string, seed int64) *verifSys {
	var v, sends int
	var frag uint16
	var smp string
	parts := strings.Split(id, "/")
	if len(parts) != 4 {
		return nil
	}
	fmt.Sscanf(parts[0], "v%d", &v)
	fmt.Sscanf(parts[1], "f%d", &frag)
	fmt.Sscanf(parts[2], "S%d", &sends)
	smp = parts[3]
	sys := &verifSys{Prop: "C10", ID: id, Seed: seed}
	emit := func(w *verifWorld, i int, r verifResult, fromSend []byte) (fs []verifFinding) {
		c10Absorb(&w.Mon.(*monC10).P[i], w.P[i])
		for _, g := range verifGroupUnits(r.Out) {
			fs = append(fs, c10CheckTrain(w.P[i].Name, g)...)
			for _, u := range g {
				if len(g) > 1 {
					if f, ok := refParseFragment(u); !ok || f.V3 != (v == 3) || (f.V3 && f.Snd != w.P[i].C.ourInstanceTag) {
						fs = append(fs, verifFinding{"C10:fragment-format", fmt.Sprintf("%s emitted a fragment that does not follow the specification: %q", w.P[i].Name, verifTrunc(u))})
					}
				}
			}
			whole := verifReassemble(g)
			var txt []byte
			if fromSend != nil && guessMessageType(whole) == msgGuessData {
				txt = fromSend
				fromSend = nil
			}
			fs = append(fs, c10CheckMessage(w, i, whole, txt)...)
		}
		return
	}
	sys.Init = func() *verifWorld {
		pol := verifPolFor(v)
		w := verifNewPair(verifPairCfg{Seed: seed, PolA: pol, PolB: pol, FragA: frag, FragB: frag})
		w.P[0].R.Keep, w.P[1].R.Keep = true, true
		m := &monC10{Budget: [2]int{sends, sends}, NKey: 1, NEnd: 1}
		if smp == "smp" {
			m.NSMP = 1
		}
		if smp == "refresh" {
			m.NRefresh, m.NKey, m.NEnd = 1, 0, 0
		}
		if smp == "hitags" {
			// boundary values of the randomness source for the 4-byte instance tags: the largest tag and the smallest
			// one with the top bit set (they appear in hexadecimal in every fragment header)
			w.P[0].R.Script = append(w.P[0].R.Script, []byte{0xff, 0xff, 0xff, 0xff})
			w.P[1].R.Script = append(w.P[1].R.Script, []byte{0x80, 0x00, 0x00, 0x00})
		}
		if smp == "tiny" {
			// boundary values of the randomness source: tiny D-H exponents, so that public keys and shared secrets
			// are short integers (2^(x*y)): 1 byte, 191 bytes (one leading zero byte in the group's width), exactly
			// 192 bytes — every length-dependent step of the key derivation (MPI of the secret) is exercised
			exps := [2][]int64{{39, 8, 3, 1, 7, 191}, {39, 191, 5, 2, 1, 8}}
			for i := 0; i < 2; i++ {
				for _, e := range exps[i] {
					b := make([]byte, 40)
					binary.BigEndian.PutUint64(b[32:], uint64(e))
					w.P[i].R.Script = append(w.P[i].R.Script, b)
				}
			}
		}
		w.Mon = m
		return w
	}
	sys.Evs = func(w *verifWorld) []verifEv {
		m := w.Mon.(*monC10)
		var evs []verifEv
		for i := 0; i < 2; i++ {
			if len(w.Q[i]) > 0 {
				evs = append(evs, verifEv{K: "deliver", I: i})
			}
		}
		if !m.Started {
			return append(evs, verifEv{K: "query", I: 0}, verifEv{K: "query-both"})
		}
		enc := w.P[0].C.IsEncrypted() && w.P[1].C.IsEncrypted()
		for i := 0; i < 2; i++ {
			if m.Budget[i] > 0 && w.P[i].C.IsEncrypted() {
				evs = append(evs, verifEv{K: "send", I: i})
			}
			if m.Asked[i] {
				evs = append(evs, verifEv{K: "smpanswer", I: i})
			}
		}
		if enc && m.NSMP > 0 {
			evs = append(evs, verifEv{K: "smpstart", I: 1})
		}
		if enc && m.NKey > 0 {
			evs = append(evs, verifEv{K: "extrakey", I: 0})
		}
		if enc && m.NRefresh > 0 && len(w.Q[0])+len(w.Q[1]) == 0 {
			evs = append(evs, verifEv{K: "refresh", I: 1})
		}
		if enc && m.NEnd > 0 && m.Budget[0]+m.Budget[1] == 0 {
			evs = append(evs, verifEv{K: "end", I: 1})
		}
		return evs
	}
	sys.Apply = func(w *verifWorld, e verifEv) []verifFinding {
		m := w.Mon.(*monC10)
		p := w.P[e.I]
		var fs []verifFinding
		var r verifResult
		var fromSend, delivered []byte
		switch e.K {
		case "query", "query-both":
			m.Started = true
			for i := 0; i < 2; i++ {
				if e.K == "query-both" || i == e.I {
					q := w.P[i].Query()
					fs = append(fs, c10CheckMessage(w, i, q, nil)...)
					w.Q[1-i] = append(w.Q[1-i], q)
				}
			}
			return fs
		case "send":
			k := m.Budget[e.I]
			m.Budget[e.I]--
			fromSend = []byte(fmt.Sprintf("text %d of %s %s", k, p.Name, strings.Repeat("z", k*97)))
			r = p.Send(fromSend)
		case "deliver":
			delivered = w.pop(e.I)
			r = p.Receive(delivered)
			for _, ev := range r.Events {
				if ev.Kind == 'K' {
					found := false
					for _, k := range m.ExtraOut {
						if string(k) == ev.Err {
							found = true
						}
					}
					if !found {
						fs = append(fs, verifFinding{"C10:extra-key-receiver", fmt.Sprintf("%s was handed an extra symmetric key that is not h2(0xFF, secbytes) of the message's key pair", p.Name)})
					}
				}
			}
		case "refresh":
			m.NRefresh--
			verifTick(w.P[0].C)
			verifTick(w.P[1].C)
			q := p.Query()
			fs = append(fs, c10CheckMessage(w, e.I, q, nil)...)
			w.Q[1-e.I] = append(w.Q[1-e.I], q)
			return fs
		case "smpstart":
			m.NSMP--
			r = p.StartSMP("q", []byte("s"))
		case "smpanswer":
			m.Asked[e.I] = false
			r = p.AnswerSMP([]byte("s"))
		case "extrakey":
			m.NKey--
			r = p.ExtraKey(0x42, []byte("use"))
		case "end":
			m.NEnd--
			r = p.End()
		}
		if r.Panic != "" {
			fs = append(fs, verifFinding{"C10:panic:" + verifPanicClass(r.Panic), r.Panic})
		}
		for _, ev := range r.Events {
			if ev.Kind == 'P' && (SMPEvent(ev.Code) == SMPEventAskForAnswer || SMPEvent(ev.Code) == SMPEventAskForSecret) {
				m.Asked[e.I] = true
			}
		}
		fs = append(fs, c10After(w, e.I, r, delivered)...)
		fs = append(fs, emit(w, e.I, r, fromSend)...)
		fs = append(fs, c10Established(w, e.I, r)...)
		if e.K == "extrakey" && len(m.ExtraOut) > 0 && !bytes.Equal(r.Key, m.ExtraOut[len(m.ExtraOut)-1]) {
			fs = append(fs, verifFinding{"C10:extra-key-sender", fmt.Sprintf("UseExtraSymmetricKey returned a key that is not h2(0xFF, secbytes) of the message's key pair")})
		}
		w.push(e.I, r.Out)
		return fs
	}
	sys.Label = func(w *verifWorld) string {
		m := w.Mon.(*monC10)
		return fmt.Sprintf("checked=%v A=%s B=%s", m.ByKind, verifMsgStateName(w.P[0].C), verifMsgStateName(w.P[1].C))
	}
	return sys
}

// ---------------------------------------------------------------------------
// (b) the reference peer

type monC10b struct {
	Ref      *ref.Peer
	RefRand  *verifDRBG
	QRef     [][]byte // towards the reference peer
	SentReal [][]byte
	SentRef  [][]byte
	GotReal  [][]byte
	GotRef   int
	Budget   [2]int
	NKey     [2]int
	NEnd     int
	RefEnded bool // the reference has ended a session the conversation was in
	Started  bool
	RealKeys [][]byte
}

func c10DSA(k *DSAPrivateKey) *dsa.PrivateKey { return &k.PrivateKey }

// id: "v<2|3>/<refinit|realinit>/f<frag>/S<n>"
func verifC10bSys(id string, seed int64) *verifSys {
	parts := strings.Split(id, "/")
	if len(parts) != 5 || parts[0] != "peer" {
		return nil
	}
	var v, sends int
	var frag uint16
	fmt.Sscanf(parts[1], "v%d", &v)
	fmt.Sscanf(parts[3], "f%d", &frag)
	fmt.Sscanf(parts[4], "S%d", &sends)
	refInit := strings.HasPrefix(parts[2], "refinit")
	padFirst := strings.HasSuffix(parts[2], "+pad") // the reference puts a padding TLV in front of its other TLVs
	hiFrag := strings.HasSuffix(parts[2], "+hifrag") // both instance tags have the top bit set and the reference fragments what it sends
	sys := &verifSys{Prop: "C10", ID: id, Seed: seed}
	sys.Init = func() *verifWorld {
		real := verifNewPrincipal(verifConvCfg{Name: "real", Seed: seed, Policies: verifPolFor(v), Key: verifKey(seed, "A"), FragSize: frag})
		rr := verifNewDRBG(seed, "reference-peer")
		rp := &ref.Peer{Version: uint16(v), Rand: rr, Priv: c10DSA(verifKey(seed, "B")), Tag: 0x5eed0100, PadFirst: padFirst}
		if hiFrag {
			rp.Tag = 0xfffffff0
			real.R.Script = append(real.R.Script, []byte{0x80, 0x00, 0x00, 0x00})
		}
		w := &verifWorld{P: []*verifPrincipal{real}, Q: make([][][]byte, 1)}
		w.Mon = &monC10b{Ref: rp, RefRand: rr, Budget: [2]int{sends, sends}, NKey: [2]int{1, 1}, NEnd: 1}
		return w
	}
	sys.Evs = func(w *verifWorld) []verifEv {
		m := w.Mon.(*monC10b)
		var evs []verifEv
		if len(w.Q[0]) > 0 {
			evs = append(evs, verifEv{K: "deliver-real"})
		}
		if len(m.QRef) > 0 {
			evs = append(evs, verifEv{K: "deliver-ref"})
		}
		if !m.Started {
			return append(evs, verifEv{K: "start"})
		}
		enc := w.P[0].C.IsEncrypted() && m.Ref.Encrypted
		if enc {
			if m.Budget[0] > 0 {
				evs = append(evs, verifEv{K: "real-sends"})
			}
			if m.Budget[1] > 0 {
				evs = append(evs, verifEv{K: "ref-sends"})
			}
			if m.NKey[0] > 0 {
				evs = append(evs, verifEv{K: "real-extrakey"})
			}
			if m.NKey[1] > 0 {
				evs = append(evs, verifEv{K: "ref-extrakey"})
			}
			if m.NEnd > 0 && m.Budget[0]+m.Budget[1] == 0 && len(w.Q[0])+len(m.QRef) == 0 {
				evs = append(evs, verifEv{K: "ref-ends"}, verifEv{K: "real-ends"})
			}
		}
		return evs
	}
	sys.Apply = func(w *verifWorld, e verifEv) []verifFinding {
		m := w.Mon.(*monC10b)
		real := w.P[0]
		var fs []verifFinding
		bad := func(sig, format string, a ...interface{}) {
			fs = append(fs, verifFinding{"C10:peer:" + sig, fmt.Sprintf(format, a...) + " [" + id + "]"})
		}
		toRef := func(out [][]byte) { m.QRef = append(m.QRef, out...) }
		toReal := func(out [][]byte) {
			if !hiFrag {
				w.Q[0] = append(w.Q[0], out...)
				return
			}
			// the reference cuts its messages into three pieces in the specification's format
			for _, msg := range out {
				if !bytes.HasPrefix(msg, []byte("?OTR:")) {
					w.Q[0] = append(w.Q[0], msg)
					continue
				}
				n := 3
				l := (len(msg) + n - 1) / n
				for k := 0; k < n; k++ {
					lo, hi := k*l, (k+1)*l
					if hi > len(msg) {
						hi = len(msg)
					}
					piece := msg[lo:hi]
					if v == 3 {
						w.Q[0] = append(w.Q[0], []byte(fmt.Sprintf("?OTR|%08x|%08x,%05d,%05d,%s,", m.Ref.Tag, real.C.ourInstanceTag, k+1, n, piece)))
					} else {
						w.Q[0] = append(w.Q[0], []byte(fmt.Sprintf("?OTR,%05d,%05d,%s,", k+1, n, piece)))
					}
				}
			}
		}
		nlog := len(m.Ref.Log)
		switch e.K {
		case "start":
			m.Started = true
			if refInit {
				toReal([][]byte{m.Ref.Query()}) // the real side answers the reference's query with a commit
			} else {
				toRef([][]byte{real.Query()})
			}
		case "deliver-real":
			msg := w.pop(0)
			wasEnc := real.C.IsEncrypted()
			r := real.Receive(msg)
			if r.Panic != "" {
				bad("panic:"+verifPanicClass(r.Panic), "%s", r.Panic)
			}
			if !wasEnc && guessMessageType(msg) == msgGuessData {
				r.Err, r.Events = "", nil // a data message after the session is gone is refused by design
			}
			if r.Err != "" {
				bad("real-rejects-reference-message", "the conversation refused a message built by the reference: %s", r.Err)
			}
			if r.HasPln {
				n := len(m.GotReal)
				m.GotReal = append(m.GotReal, r.Plain)
				if n >= len(m.SentRef) || !bytes.Equal(m.SentRef[n], r.Plain) {
					bad("real-reads-wrong-text", "the conversation read %q, the reference sent message #%d %q", verifTrunc(r.Plain), n, verifTrunc(verifNth(m.SentRef, n)))
				}
			}
			for _, ev := range r.Events {
				if ev.Kind == 'K' {
					m.RealKeys = append(m.RealKeys, []byte(ev.Err))
				}
				if ev.Kind == 'M' {
					switch MessageEvent(ev.Code) {
					case MessageEventReceivedMessageUnreadable, MessageEventReceivedMessageMalformed, MessageEventSetupError:
						bad("real-rejects-reference-message", "event %s on a message built by the reference", ev)
					}
				}
			}
			toRef(r.Out)
		case "deliver-ref":
			msg := m.QRef[0]
			m.QRef = append([][]byte{}, m.QRef[1:]...)
			before := len(m.Ref.Received)
			out, _ := m.Ref.Receive(msg)
			toReal(out)
			for k := before; k < len(m.Ref.Received); k++ {
				if k >= len(m.SentReal) || !bytes.Equal(m.SentReal[k], m.Ref.Received[k]) {
					bad("reference-reads-wrong-text", "the reference read %q as message #%d, the conversation sent %q", verifTrunc(m.Ref.Received[k]), k, verifTrunc(verifNth(m.SentReal, k)))
				}
			}
		case "real-sends":
			k := m.Budget[0]
			m.Budget[0]--
			t := []byte(fmt.Sprintf("real text %d %s", k, strings.Repeat("r", k*101)))
			m.SentReal = append(m.SentReal, t)
			r := real.Send(t)
			if r.Err != "" || r.Panic != "" {
				bad("real-send-failed", "%s%s", r.Err, r.Panic)
			}
			toRef(r.Out)
		case "ref-sends":
			k := m.Budget[1]
			m.Budget[1]--
			t := []byte(fmt.Sprintf("reference text %d %s", k, strings.Repeat("f", k*77)))
			m.SentRef = append(m.SentRef, t)
			toReal(m.Ref.Send(t))
		case "real-extrakey":
			m.NKey[0]--
			r := real.ExtraKey(7, []byte("abc"))
			toRef(r.Out)
			m.RealKeys = append(m.RealKeys, r.Key)
		case "ref-extrakey":
			m.NKey[1]--
			key := m.Ref.ExtraKeyFor()
			toReal(m.Ref.Send(nil, ref.TLV{Type: 8, Value: append(ref.Word(9), []byte("xyz")...)}))
			m.Ref.ExtraKeys = append(m.Ref.ExtraKeys, ref.ExtraKey{Usage: 9, Data: []byte("xyz"), Key: key})
		case "ref-ends":
			m.NEnd--
			m.RefEnded = real.C.IsEncrypted()
			toReal(m.Ref.End())
		case "real-ends":
			m.NEnd--
			r := real.End()
			toRef(r.Out)
		}
		for _, l := range m.Ref.Log[nlog:] {
			if strings.HasPrefix(l, "bad") || strings.HasPrefix(l, "malformed") || strings.HasPrefix(l, "unknown") || strings.HasPrefix(l, "counter") || strings.HasPrefix(l, "commit does not") || strings.HasPrefix(l, "next D-H") {
				bad("reference-rejects-real-message", "the reference refused a message of the conversation: %s", l)
			}
		}
		// agreement on the session
		if real.C.IsEncrypted() && m.Ref.Encrypted && e.K != "ref-ends" && e.K != "real-ends" {
			if real.C.GetSSID() != m.Ref.SSID {
				bad("ssid", "SSID %x vs. the reference's %x", real.C.GetSSID(), m.Ref.SSID)
			}
			if !bytes.Equal(m.Ref.PeerKey.Fingerprint(), real.C.ourKeys[0].PublicKey().Fingerprint()) {
				bad("fingerprint", "the reference computes another fingerprint for the conversation's key")
			}
		}
		return fs
	}
	sys.Final = func(w *verifWorld) []verifFinding {
		m := w.Mon.(*monC10b)
		var fs []verifFinding
		if m.RefEnded && w.P[0].C.IsEncrypted() {
			fs = append(fs, verifFinding{"C10:peer:disconnect-ignored", fmt.Sprintf("the reference ended the session (Disconnected TLV) and at quiescence the conversation is still encrypted [%s]", id)})
		}
		if len(m.GotReal) != len(m.SentRef) || len(m.Ref.Received) != len(m.SentReal) {
			fs = append(fs, verifFinding{"C10:peer:texts-lost", fmt.Sprintf("conversation read %d of %d reference texts, reference read %d of %d [%s]", len(m.GotReal), len(m.SentRef), len(m.Ref.Received), len(m.SentReal), id)})
		}
		// every extra key announced by one side was derived identically by the other
		var refKeys [][]byte
		for _, k := range m.Ref.ExtraKeys {
			refKeys = append(refKeys, k.Key)
		}
		for _, k := range m.RealKeys {
			ok := false
			for _, r := range refKeys {
				if bytes.Equal(k, r) {
					ok = true
				}
			}
			if !ok {
				fs = append(fs, verifFinding{"C10:peer:extra-key", "an extra symmetric key of the conversation has no counterpart on the reference side [" + id + "]"})
			}
		}
		if len(m.RealKeys) != len(refKeys) {
			fs = append(fs, verifFinding{"C10:peer:extra-key-count", fmt.Sprintf("%d extra keys on the conversation's side, %d on the reference's [%s]", len(m.RealKeys), len(refKeys), id)})
		}
		return fs
	}
	sys.Label = func(w *verifWorld) string {
		m := w.Mon.(*monC10b)
		return fmt.Sprintf("real=%s ref-enc=%v ref-fin=%v texts=%d/%d keys=%d", verifMsgStateName(w.P[0].C), m.Ref.Encrypted, m.Ref.Finished, len(m.GotReal), len(m.Ref.Received), len(m.RealKeys))
	}
	return sys
}

func verifNth(xs [][]byte, n int) []byte {
	if n < len(xs) {
		return xs[n]
	}
	return nil
}

func init() {
	verifChecks["C10"] = &verifCheck{
		Level: "model_checking",
		ReplayCase: func(cj string, seed int64) []verifFinding {
			tmp := &verifReport{Prop: "C10", Seed: seed, Tier: "quick", Outcomes: map[string]int64{}, Extra: map[string]interface{}{}}
			c10FragmentSweep(tmp)
			var fs []verifFinding
			for _, v := range tmp.Violations {
				fs = append(fs, verifFinding{v.Sig, v.Detail})
			}
			return fs
		},
		Build: func(id string, seed int64) *verifSys {
			if strings.HasPrefix(id, "peer/") {
				return verifC10bSys(id, seed)
			}
			return verifC10Sys(id, seed)
		},
		Run: func(r *verifReport) {
			r.Rule = "(a) explicit-state exploration of honest session histories from the query on (one or both sides asking, texts both ways with key rotation, SMP, extra symmetric key, End; fragmented or not; every delivery interleaving): EVERY emitted message is parsed by the independent implementation verifref (standard library only, written from the specification) and re-derived from both sides' secrets, which are found in the logs of the randomness sources by verification (g^d, commitment hash), never by call site: commit hash and ciphertext, D-H key, SSID, c/c', m1/m1', m2/m2', the decrypted signature block (long-term key, key id, DSA signature validity over M), data-message key ids per the specification's ratchet, next D-H key, counter, session keys with the high/low-end rule, MAC, plaintext layout, extra symmetric key, and the whole data message rebuilt byte for byte; every fragment train is labelled 1..n of n with exactly n pieces (also for every fragment size 20..340); every SMP TLV (1, 1Q, 2, 3, 4) is parsed (MPI counts, minimal MPIs), its group elements and D values range-checked, its zero-knowledge proofs verified with the specification's equations, and its values re-derived from the sender's randomness log: g2a, g3a, g2b, g3b as g1^x for logged x, c/D pairs as H(i, g1^r), r - x*c mod q for logged r, Pa/Pb = g3^r4, Qa/Qb = g1^r4 * g2^secret with secret = SHA256(1, initiator fingerprint, responder fingerprint, ssid, user secret), Ra/Rb = (Qa/Qb)^a3/b3, and Rb^a3 = Pa/Pb for equal secrets; (b) a reference peer written from the specification talks to the real conversation in both exchange roles: all interleavings of texts both ways, extra-key requests both ways and End: everything the reference builds must be accepted and read exactly, and vice versa; SSID, fingerprint and extra keys must agree"
			r.Assumptions = []string{"verifref shares with otr3 only the Go standard library (crypto/dsa, aes, sha, hmac, math/big)", "signature bytes are verified, not re-derived (DSA is randomised)"}
			idsA := []string{"v3/f0/S2/nosmp", "v2/f0/S1/smp", "v3/f0/S1/smp", "v3/f200/S1/nosmp", "v3/f0/S2/refresh", "v2/f0/S1/refresh", "v3/f0/S2/tiny", "v2/f0/S2/tiny", "v3/f200/S1/hitags"}
			idsB := []string{"peer/v3/refinit/f0/S2", "peer/v3/realinit/f0/S1", "peer/v2/refinit/f0/S1", "peer/v2/realinit/f150/S1", "peer/v3/realinit+pad/f0/S1", "peer/v2/refinit+pad/f0/S1", "peer/v3/refinit+hifrag/f0/S1"}
			if r.Tier == "thorough" {
				idsA = []string{"v2/f150/S1/smp", "v3/f200/S2/nosmp", "v2/f0/S2/refresh", "v3/f0/S2/refresh", "v2/f0/S2/smp", "v3/f0/S3/nosmp", "v3/f0/S3/tiny", "v2/f0/S3/tiny", "v3/f200/S2/hitags", "v3/f0/S2/hitags"}
				idsB = []string{"peer/v3/refinit/f0/S3", "peer/v3/realinit/f0/S3", "peer/v2/refinit/f0/S3", "peer/v2/realinit/f0/S3", "peer/v3/refinit+pad/f0/S2", "peer/v2/realinit+pad/f0/S2", "peer/v3/realinit+hifrag/f150/S2", "peer/v2/refinit+hifrag/f0/S1", "peer/v3/realinit/f150/S2", "peer/v2/refinit/f150/S2"}
			}
			c10FragmentSweep(r)
			for _, id := range idsB {
				r.explore(verifC10bSys(id, r.Seed))
			}
			for _, id := range idsA {
				r.explore(verifC10Sys(id, r.Seed))
			}
		},
	}
}
