//go:build verif

package otr3

import (
	"bytes"
	"crypto/sha256"
	"encoding/binary"
	"fmt"
	"math/big"
	"runtime"
	"sort"
	"strings"
	"sync"
)

// C06 — a rejected message leaves the session exactly as it was.
// Differential oracle: state s, rejected input r, s' = s after r; either the
// conversation is bit-for-bit the same (exact hash) or a battery of genuine
// continuations is run on both and the observable transcripts are compared.

type c06State struct {
	Name    string
	Class   string
	W       *verifWorld
	R       int
	History [][]byte // messages R has already received in this session (replay material)
	Old     [][]byte // AKE + data messages of an earlier session addressed to R
}

// c06Script builds the state set for one protocol version
func c06States(seed int64, v int) (states []c06State) {
	pol := verifPolFor(v)
	w := verifNewPair(verifPairCfg{Seed: seed, PolA: pol, PolB: pol})
	hist := [2][][]byte{}
	var old [2][][]byte
	snap := func(name, class string) {
		for r := 0; r < 2; r++ {
			c := w.clone()
			c.P[0].Rec.take()
			c.P[1].Rec.take()
			states = append(states, c06State{Name: fmt.Sprintf("v%d/%s/R=%c", v, name, 'A'+r), Class: class, W: c, R: r,
				History: append([][]byte{}, hist[r]...), Old: append([][]byte{}, old[r]...)})
		}
	}
	step := func() bool {
		for to := 0; to < 2; to++ {
			if len(w.Q[to]) > 0 {
				m := w.pop(to)
				hist[to] = append(hist[to], m)
				r := w.P[to].Receive(m)
				w.push(to, r.Out)
				return true
			}
		}
		return false
	}
	flush := func() {
		for step() {
		}
	}
	snap("fresh", "plaintext")
	w.Q[1] = append(w.Q[1], w.P[0].Query())
	for i, n := range []string{"ake1-query-delivered", "ake2-commit-delivered", "ake3-dhkey-delivered", "ake4-revealsig-delivered"} {
		step()
		snap(n, fmt.Sprintf("ake-step%d", i+1))
	}
	step()
	snap("encrypted", "encrypted")
	for k := 1; k <= 3; k++ {
		for i := 0; i < 2; i++ {
			r := w.P[i].Send([]byte(fmt.Sprintf("rotation %d from %d", k, i)))
			w.push(i, r.Out)
			flush()
		}
		if k == 1 || k == 3 {
			snap(fmt.Sprintf("encrypted-rot%d", k), "encrypted")
		}
	}
	// a data message in flight
	r := w.P[0].Send([]byte("in flight"))
	w.push(0, r.Out)
	snap("encrypted-data-in-flight", "encrypted")
	flush()
	// SMP, step by step (A initiates)
	r = w.P[0].StartSMP("", []byte("secret"))
	w.push(0, r.Out)
	snap("smp1-in-flight", "smp")
	step()
	snap("smp-waiting-for-secret", "smp")
	r = w.P[1].AnswerSMP([]byte("secret"))
	w.push(1, r.Out)
	snap("smp2-in-flight", "smp")
	step()
	snap("smp3-in-flight", "smp")
	step()
	snap("smp4-in-flight", "smp")
	flush()
	// refresh while encrypted
	verifTick(w.P[0].C)
	verifTick(w.P[1].C)
	w.Q[0] = append(w.Q[0], w.P[1].Query())
	for i, n := range []string{"refresh1-query-delivered", "refresh2-commit-delivered", "refresh3-dhkey-delivered", "refresh4-revealsig-delivered"} {
		step()
		snap(n, fmt.Sprintf("refresh-step%d", i+1))
	}
	flush()
	old = hist
	hist = [2][][]byte{}
	snap("encrypted-after-refresh", "encrypted")
	// finished
	r = w.P[0].End()
	w.push(0, r.Out)
	flush()
	snap("finished", "finished")
	return
}

type c06Input struct {
	Class string // stable class for signatures
	Desc  string
	Msg   []byte
}

func c06Rebuild(raw []byte) []byte { return c13B64(raw) }

// c06Inputs derives candidate rejected inputs for a state
func c06Inputs(st c06State, thorough bool) (out []c06Input) {
	R := st.W.P[st.R]
	v3 := R.C.version != nil && R.C.version.protocolVersion() == 3
	add := func(class, desc string, m []byte) {
		if m != nil {
			out = append(out, c06Input{class, desc, m})
		}
	}
	positions := func(n int) []int {
		var ps []int
		for p := 0; p < n; p++ {
			if thorough || p < 48 || p >= n-40 || p%16 == 0 {
				ps = append(ps, p)
			}
		}
		return ps
	}
	mutate := func(src string, g []byte) {
		kind := verifMsgKind(g)
		if guessMessageType(g) == msgGuessQuery || guessMessageType(g) == msgGuessError || guessMessageType(g) == msgGuessNotOTR || guessMessageType(g) == msgGuessTaggedPlaintext {
			return
		}
		raw, err := decode(encodedMessage(g))
		if err != nil {
			return
		}
		hl := 3
		if v3 {
			hl = 11
		}
		for _, p := range positions(len(raw)) {
			for _, x := range []byte{0x01, 0x80} {
				b := append([]byte{}, raw...)
				b[p] ^= x
				region := "body"
				if p < hl {
					region = "header"
				} else if p >= len(raw)-24 {
					region = "tail"
				}
				add(fmt.Sprintf("%s:%s:flip-%s", src, kind, region), fmt.Sprintf("%s %s with byte %d xor %#x", src, kind, p, x), c06Rebuild(b))
			}
		}
		for l := 0; l < len(raw); l++ {
			if thorough || l%8 == 0 || l >= len(raw)-30 {
				add(fmt.Sprintf("%s:%s:truncated", src, kind), fmt.Sprintf("%s %s truncated to %d of %d", src, kind, l, len(raw)), c06Rebuild(raw[:l]))
			}
		}
		add(fmt.Sprintf("%s:%s:extended", src, kind), fmt.Sprintf("%s %s extended by 4 bytes", src, kind), c06Rebuild(append(append([]byte{}, raw...), 1, 2, 3, 4)))
		// version field
		for _, ver := range []uint16{2, 3, 4, 0} {
			if binary.BigEndian.Uint16(raw) == ver {
				continue
			}
			b := append([]byte{}, raw...)
			binary.BigEndian.PutUint16(b, ver)
			add(fmt.Sprintf("%s:%s:version", src, kind), fmt.Sprintf("%s %s with version %d", src, kind, ver), c06Rebuild(b))
		}
		if v3 && len(raw) >= 11 {
			for _, s := range []uint32{0, 5, 0x12345678} {
				add(fmt.Sprintf("%s:%s:sender-tag", src, kind), fmt.Sprintf("%s %s with sender tag %#x", src, kind, s), c15Retag(g, s, binary.BigEndian.Uint32(raw[7:])))
			}
			// both tags foreign: a message between two other instances, none of our business
			add(fmt.Sprintf("%s:%s:both-tags", src, kind), fmt.Sprintf("%s %s with sender tag 0x5a5a5a5a and receiver tag 0x6b6b6b6b", src, kind), c15Retag(g, 0x5a5a5a5a, 0x6b6b6b6b))
			for _, rc := range []uint32{0x50, 0x23456789} {
				add(fmt.Sprintf("%s:%s:receiver-tag", src, kind), fmt.Sprintf("%s %s with receiver tag %#x", src, kind, rc), c15Retag(g, binary.BigEndian.Uint32(raw[3:]), rc))
			}
		}
		if guessMessageType(g) == msgGuessDHKey {
			// out-of-range D-H values: must be refused and must not be remembered
			one := bnFromInt(1)
			for name, val := range map[string]*big.Int{"0": bnFromInt(0), "1": one, "p-1": new(big.Int).Sub(p, one), "p": new(big.Int).Set(p), "p+1": new(big.Int).Add(p, one)} {
				add(fmt.Sprintf("%s:DHKEY:dh-out-of-range", src), fmt.Sprintf("%s DHKEY with value %s", src, name), c06Rebuild(append(append([]byte{}, raw[:hl]...), AppendMPI(nil, val)...)))
			}
		}
		if guessMessageType(g) == msgGuessData {
			// field substitutions, MAC left alone
			hdr, dm, _, ok := verifParseData(g)
			if ok {
				mk := func(class, desc string, f func(d *dataMsg)) {
					d := dm
					d.serializeUnsignedCache = nil
					d.oldMACKeys = dm.oldMACKeys
					f(&d)
					body := d.serializeUnsigned()
					body = append(body, dm.authenticator...)
					var rk []byte
					for _, k := range dm.oldMACKeys {
						rk = append(rk, k...)
					}
					body = AppendData(body, rk)
					add(fmt.Sprintf("%s:DATA:%s", src, class), fmt.Sprintf("%s DATA with %s", src, desc), c06Rebuild(append(append([]byte{}, hdr...), body...)))
				}
				ctr := binary.BigEndian.Uint64(dm.topHalfCtr[:])
				for _, c := range []uint64{ctr + 1, ctr + 2, 0xffffffffffffffff, 1} {
					c := c
					mk("counter", fmt.Sprintf("counter %#x", c), func(d *dataMsg) { binary.BigEndian.PutUint64(d.topHalfCtr[:], c) })
				}
				for _, k := range []uint32{dm.senderKeyID + 1, dm.senderKeyID - 1, 0, 0xffffffff} {
					k := k
					mk("sender-keyid", fmt.Sprintf("sender key id %d", k), func(d *dataMsg) { d.senderKeyID = k })
				}
				for _, k := range []uint32{dm.recipientKeyID + 1, dm.recipientKeyID - 1, 0, 0xffffffff} {
					k := k
					mk("recipient-keyid", fmt.Sprintf("recipient key id %d", k), func(d *dataMsg) { d.recipientKeyID = k })
				}
				mk("flag", "flag toggled", func(d *dataMsg) { d.flag ^= 1 })
				mk("next-dh", "next DH key replaced", func(d *dataMsg) { d.y = bnFromInt(12345) })
			}
		}
	}
	for _, g := range st.W.Q[st.R] {
		mutate("inflight", g)
	}
	// the most recent message R has accepted, and the last data message of its history
	if n := len(st.History); n > 0 {
		add("replay:"+verifMsgKind(st.History[n-1]), "replay of the last received message", st.History[n-1])
		mutate("last", st.History[n-1])
		for i := n - 1; i >= 0; i-- {
			if guessMessageType(st.History[i]) == msgGuessData {
				if i != n-1 {
					add("replay:DATA", "replay of the last received data message", st.History[i])
					mutate("lastdata", st.History[i])
				}
				break
			}
		}
		// every message of the current history, replayed out of place
		for i, m := range st.History {
			add("replay-history:"+verifMsgKind(m), fmt.Sprintf("replay of history message %d (%s)", i, verifMsgKind(m)), m)
		}
	}
	for i, m := range st.Old {
		if i > 12 {
			break
		}
		add("old-session:"+verifMsgKind(m), fmt.Sprintf("message %d (%s) of the previous session", i, verifMsgKind(m)), m)
	}
	// unexpected AKE messages: the genuine ones of the exchange towards the peer, reflected back
	for _, m := range st.W.Q[1-st.R] {
		add("reflected:"+verifMsgKind(m), "the in-flight message towards the peer, reflected", m)
	}
	for _, g := range []string{"?OTR:AAMDAAAA.", "?OTR:AAIDAAAA.", "?OTR:AAMD", "?OTR:AAMC////.", "?OTR:AAMK.", "?OTR:AAMRAAAAAAAAAAAAAAAAAAAAAAAA.", "?OTR:AAMSAAAAAAAAAAAAAAAAAAAAAAAA.", "?OTR:abcdefgh.", "?OTR:AAEK.", "?OTR|abc", "?OTR,1,2,x,"} {
		add("garbage", "garbage "+g, []byte(g))
	}
	return
}

func c06Rejected(r verifResult) bool {
	if r.HasPln || r.Panic != "" {
		return false
	}
	if verifAccepted(r) {
		// accepted messages without text (SMP steps, heartbeats, TLV-only) are not rejected ones
		return false
	}
	for _, o := range r.Out {
		if !bytes.HasPrefix(o, errorMarker) {
			return false
		}
	}
	return true
}

// c06Transcript runs the battery of genuine continuations and renders everything observable
func c06Transcript(w0 *verifWorld, rIx int) []string {
	var parts []string
	obs := func(w *verifWorld) string {
		var b strings.Builder
		for i, p := range w.P {
			fp := ""
			if p.C.theirKey != nil && p.C.IsEncrypted() {
				fp = fmt.Sprintf("%x", p.C.theirKey.Fingerprint()[:4])
			}
			ids, hl := p.C.SecureSessionID()
			fmt.Fprintf(&b, "%d:%s/peer=%s/hl=%d/", i, verifMsgStateName(p.C), fp, hl)
			_ = ids
		}
		fmt.Fprintf(&b, "same-ssid=%v", w.P[0].C.ssid == w.P[1].C.ssid)
		return b.String()
	}
	run := func(w *verifWorld, b *strings.Builder) {
		ok := w.deliverAll(60, func(to int, m []byte, r verifResult) {
			fmt.Fprintf(b, "%d<-%s:plain=%q,err=%q,ev=[%s],out=[", to, verifMsgKind(m), r.Plain, r.Err, verifEventsString(r.Events))
			for _, o := range r.Out {
				fmt.Fprintf(b, "%s%s ", verifMsgKind(o), c06Content(w.P[to].C, o))
			}
			b.WriteString("];")
			if r.Panic != "" {
				fmt.Fprintf(b, "PANIC %s;", r.Panic)
			}
		})
		fmt.Fprintf(b, "quiescent=%v;%s", ok, obs(w))
	}
	call := func(b *strings.Builder, w *verifWorld, i int, name string, r verifResult) {
		fmt.Fprintf(b, "%s(%d):err=%q,ev=[%s],out=%d", name, i, r.Err, verifEventsString(r.Events), len(r.Out))
		for _, o := range r.Out {
			b.WriteString(c06Content(w.P[i].C, o))
		}
		b.WriteString(";")
		w.push(i, r.Out)
	}
	// B1 genuine continuation
	w1 := w0.clone()
	var b1 strings.Builder
	run(w1, &b1)
	parts = append(parts, "continuation: "+b1.String())
	// B2 text each way
	w2 := w1.clone()
	var b2 strings.Builder
	for i := 0; i < 2; i++ {
		call(&b2, w2, i, "send", w2.P[i].Send([]byte(fmt.Sprintf("text %d", i))))
		run(w2, &b2)
	}
	parts = append(parts, "text: "+b2.String())
	// B3 SMP both ways
	w3 := w1.clone()
	var b3 strings.Builder
	for i := 0; i < 2; i++ {
		call(&b3, w3, i, "smpstart", w3.P[i].StartSMP("q", []byte("s")))
		run(w3, &b3)
		call(&b3, w3, 1-i, "smpanswer", w3.P[1-i].AnswerSMP([]byte("s")))
		run(w3, &b3)
	}
	parts = append(parts, "smp: "+b3.String())
	// B4 a query from the peer, immediately and after the ignore window
	w4 := w1.clone()
	var b4 strings.Builder
	w4.Q[rIx] = append(w4.Q[rIx], w4.P[1-rIx].Query())
	run(w4, &b4)
	parts = append(parts, "query-now: "+b4.String())
	w5 := w1.clone()
	var b5 strings.Builder
	verifTick(w5.P[0].C)
	verifTick(w5.P[1].C)
	w5.Q[rIx] = append(w5.Q[rIx], w5.P[1-rIx].Query())
	run(w5, &b5)
	call(&b5, w5, rIx, "send", w5.P[rIx].Send([]byte("after refresh")))
	run(w5, &b5)
	parts = append(parts, "query-after-tick: "+b5.String())
	// B6 End
	w6 := w1.clone()
	var b6 strings.Builder
	call(&b6, w6, rIx, "end", w6.P[rIx].End())
	run(w6, &b6)
	parts = append(parts, "end: "+b6.String())
	// B7 a query directly, before the in-flight traffic is delivered
	w7 := w0.clone()
	var b7 strings.Builder
	w7.Q[rIx] = append([][]byte{w7.P[1-rIx].Query()}, w7.Q[rIx]...)
	run(w7, &b7)
	parts = append(parts, "query-first: "+b7.String())
	return parts
}

// c06Content: what a data message says (opened with the emitter's keys): key ids, counter, flag, text and TLVs. Header tags and ciphertext bytes are not part of it (a peer tag learnt from the header of a
// rejected message legitimately changes later headers).
func c06Content(emitter *Conversation, msg []byte) string {
	if guessMessageType(msg) != msgGuessData {
		return ""
	}
	info := verifOpenOwn(emitter, msg)
	if !info.Parsed {
		return "/unparsed"
	}
	h := sha256.New()
	fmt.Fprintf(h, "%d|%d|%d|%d|%q|", info.Flag, info.SenderKeyID, info.RecipientKeyID, info.Ctr, info.Plain)
	for _, t := range info.TLVs {
		if t.tlvType != tlvTypePadding {
			fmt.Fprintf(h, "tlv%d:%x|", t.tlvType, t.tlvValue)
		}
	}
	// (which MAC keys a later message discloses is C09's subject: a rejected message for a valid key pair makes the
	// receiver compute, and later disclose, that pair's never-used receiving key — not a difference in behaviour)
	return fmt.Sprintf("/%x", h.Sum(nil)[:5])
}

type c06Case struct {
	State string `json:"state"`
	Input string `json:"input"`
	Ver   int    `json:"version"`
}

type c06Runner struct {
	seed     int64
	thorough bool
	mu       sync.Mutex
	base     map[string][]string // state name → baseline transcript
	verdict  map[string]string   // state name + hash after → "" (equal) or diff description
}

func (x *c06Runner) baseline(st c06State) []string {
	x.mu.Lock()
	b, ok := x.base[st.Name]
	x.mu.Unlock()
	if ok {
		return b
	}
	b = c06Transcript(st.W, st.R)
	x.mu.Lock()
	x.base[st.Name] = b
	x.mu.Unlock()
	return b
}

// eval applies one input; returns finding (or nil), rejected?, changed?
func (x *c06Runner) eval(st c06State, in c06Input) (f *verifFinding, rejected, changed bool) {
	w := st.W.clone()
	R := w.P[st.R]
	h0 := verifHash(R.C)
	r := R.Receive(in.Msg)
	if r.Panic != "" {
		return &verifFinding{"C06:panic:" + verifPanicClass(r.Panic), fmt.Sprintf("state %s, %s: %s", st.Name, in.Desc, r.Panic)}, false, false
	}
	if !c06Rejected(r) {
		return nil, false, false
	}
	h1 := verifHash(R.C)
	if h1 == h0 {
		return nil, true, false
	}
	key := fmt.Sprintf("%s/%x", st.Name, h1)
	x.mu.Lock()
	v, ok := x.verdict[key]
	x.mu.Unlock()
	if !ok {
		base := x.baseline(st)
		got := c06Transcript(w, st.R)
		v = ""
		for i := range base {
			if i < len(got) && base[i] != got[i] {
				name := base[i][:strings.Index(base[i], ":")]
				v = fmt.Sprintf("%s|continuation %q differs:\n      without: %s\n      with:    %s", name, name, c06DiffWindow(base[i], got[i]), c06DiffWindow(got[i], base[i]))
				break
			}
		}
		x.mu.Lock()
		x.verdict[key] = v
		x.mu.Unlock()
	}
	if v == "" {
		return nil, true, true
	}
	which := v[:strings.Index(v, "|")]
	return &verifFinding{fmt.Sprintf("C06:%s:%s:%s", st.Class, in.Class, which), fmt.Sprintf("state %s, rejected input %q: %s", st.Name, in.Desc, v[strings.Index(v, "|")+1:])}, true, true
}

// c06DiffWindow shows a around the first position where it differs from b
func c06DiffWindow(a, b string) string {
	i := 0
	for i < len(a) && i < len(b) && a[i] == b[i] {
		i++
	}
	lo := i - 120
	if lo < 0 {
		lo = 0
	}
	hi := i + 200
	if hi > len(a) {
		hi = len(a)
	}
	return "…" + a[lo:hi] + "…"
}

func init() {
	verifChecks["C06"] = &verifCheck{
		Level: "model_checking",
		ReplayCase: func(cj string, seed int64) []verifFinding {
			var c c06Case
			if jsonUnmarshal(cj, &c) != nil {
				return nil
			}
			x := &c06Runner{seed: seed, base: map[string][]string{}, verdict: map[string]string{}}
			for _, st := range c06States(seed, c.Ver) {
				if st.Name != c.State {
					continue
				}
				for _, th := range []bool{false, true} {
					for _, in := range c06Inputs(st, th) {
						if in.Desc == c.Input {
							if f, _, _ := x.eval(st, in); f != nil {
								return []verifFinding{*f}
							}
							return nil
						}
					}
				}
			}
			return nil
		},
		Run: func(r *verifReport) {
			r.Rule = "states: every step of an honest exchange in both roles, encrypted after 0/1/3 rotations, data in flight, every SMP step, every step of a refresh while encrypted, after the refresh, finished — under v2 and v3; rejected inputs: every in-flight / last received / last data message with byte flips (structured positions; thorough: all), truncations, extension, version and tag changes, counter / key-id / flag / next-DH substitutions with the MAC left alone, replays of every history message, messages of the previous session, reflected messages, garbage; a case counts when Receive rejects it (no plaintext, nothing to send but an OTR error). Oracle: exact state hash unchanged, or else identical observable transcripts of seven genuine continuations (pending traffic, text both ways, SMP both ways, peer query now / after the ignore window / before pending traffic, End) run on clones with and without the rejected input"
			r.Assumptions = []string{"forgeries that need attacker-computed MACs or signatures are C01/C02's alphabet, not this one", "virtual two-valued clock; the continuation battery is fixed"}
			x := &c06Runner{seed: r.Seed, thorough: r.Tier == "thorough", base: map[string][]string{}, verdict: map[string]string{}}
			type job struct {
				st c06State
				in c06Input
			}
			jobs := make(chan job, 256)
			var wg sync.WaitGroup
			var mu sync.Mutex
			classes := map[string]int64{}
			for k := 0; k < runtime.NumCPU(); k++ {
				wg.Add(1)
				go func() {
					defer wg.Done()
					for j := range jobs {
						f, rej, chg := x.eval(j.st, j.in)
						mu.Lock()
						r.Evals++
						if rej {
							r.Nontrivial++
							r.Transitions++
							classes[j.in.Class[:strings.Index(j.in.Class+":", ":")]]++
						}
						if chg {
							r.Traces++
						}
						if f != nil {
							ver := 3
							if strings.HasPrefix(j.st.Name, "v2") {
								ver = 2
							}
							r.addCase("C06", f.Sig, f.Detail, c06Case{j.st.Name, j.in.Desc, ver})
						}
						mu.Unlock()
					}
				}()
			}
			nstates := 0
			for _, v := range []int{3, 2} {
				for _, st := range c06States(r.Seed, v) {
					nstates++
					for _, in := range c06Inputs(st, x.thorough) {
						jobs <- job{st, in}
					}
				}
			}
			close(jobs)
			wg.Wait()
			r.States = int64(nstates)
			r.Extra["rejected_inputs_by_source"] = classes
			r.Extra["rejected_inputs_that_changed_the_state_hash"] = r.Traces
			r.Extra["distinct_changed_states_compared_by_continuations"] = len(x.verdict)
			var names []string
			for k := range x.base {
				names = append(names, k)
			}
			sort.Strings(names)
			r.sample(map[string]interface{}{"states_with_battery": names})
			r.sample(map[string]string{"state": "v3/encrypted-rot1/R=B", "input": "lastdata DATA with counter 0xffffffffffffffff"})
		},
	}
}
