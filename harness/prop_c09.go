//go:build verif

package otr3

import (
	"strings"
	"bytes"
	"encoding/binary"
	"fmt"
	"math/big"
	"sync"
)

// C09 — MAC keys are disclosed only once retired, and then they are disclosed.

type c09Key struct {
	Epoch      int
	Our, Their uint32
	MAC        []byte
	Used       bool // authenticated a message this principal accepted
	Disclosed  bool // appeared in the old-MAC-keys field of a message this principal sent
}

type monC09 struct {
	Budget  [2]int
	Refresh int
	SMP     int // SMP runs A may still start
	Forge   int // remaining injections of a data message with current key ids and a wrong MAC
	Keys    [2][]c09Key
	Epoch   [2]int
	NSent   int
	NDisc   int
	NProbe  int
}

var c09Cache sync.Map // (priv|pub) → receiving MAC key

func c09RecvMAC(priv secretKeyValue, pub, their []byte, v otrVersion) []byte {
	key := string(priv) + "|" + string(pub) + "|" + string(their)
	if x, ok := c09Cache.Load(key); ok {
		return x.([]byte)
	}
	sk := calculateDHSessionKeys(priv, bnFromBytes(pub), bnFromBytes(their), v)
	sk.unlock()
	out := append([]byte{}, sk.receivingMACKey...)
	c09Cache.Store(key, out)
	return out
}

// c09Learn records every receiving MAC key principal i can currently compute
func c09Learn(w *verifWorld, i int) {
	m := w.Mon.(*monC09)
	c := w.P[i].C
	if !c.IsEncrypted() || c.version == nil {
		return
	}
	k := &c.keys
	type side struct {
		id   uint32
		priv secretKeyValue
		pub  []byte
	}
	var ours []side
	if k.ourCurrentDHKeys.priv != nil && k.ourCurrentDHKeys.pub != nil {
		ours = append(ours, side{k.ourKeyID, k.ourCurrentDHKeys.priv, k.ourCurrentDHKeys.pub.Bytes()})
	}
	if k.ourPreviousDHKeys.priv != nil && k.ourPreviousDHKeys.pub != nil {
		ours = append(ours, side{k.ourKeyID - 1, k.ourPreviousDHKeys.priv, k.ourPreviousDHKeys.pub.Bytes()})
	}
	var theirs []side
	if k.theirCurrentDHPubKey != nil && k.theirCurrentDHPubKey.Sign() > 0 {
		theirs = append(theirs, side{k.theirKeyID, nil, k.theirCurrentDHPubKey.Bytes()})
	}
	if k.theirPreviousDHPubKey != nil && k.theirPreviousDHPubKey.Sign() > 0 {
		theirs = append(theirs, side{k.theirKeyID - 1, nil, k.theirPreviousDHPubKey.Bytes()})
	}
	for _, o := range ours {
		for _, t := range theirs {
			found := false
			for _, x := range m.Keys[i] {
				if x.Epoch == m.Epoch[i] && x.Our == o.id && x.Their == t.id {
					found = true
				}
			}
			if !found {
				m.Keys[i] = append(m.Keys[i], c09Key{Epoch: m.Epoch[i], Our: o.id, Their: t.id, MAC: c09RecvMAC(o.priv, o.pub, t.pub, c.version)})
			}
		}
	}
}

// c09Forge builds a data message for key pair (our, their) of the receiver, authenticated with key
func c09Forge(rcv *Conversation, our, their uint32, key []byte) []byte {
	hdr, _ := rcv.messageHeader(msgTypeData)
	if rcv.version.protocolVersion() == 3 {
		// as sent by the peer: swap the tags
		hdr = AppendShort(nil, 3)
		hdr = append(hdr, msgTypeData)
		hdr = AppendWord(hdr, rcv.theirInstanceTag)
		hdr = AppendWord(hdr, rcv.ourInstanceTag)
	}
	d := dataMsg{flag: 0, senderKeyID: their, recipientKeyID: our, y: modExpP(g1, bnFromInt(0x777)), encryptedMsg: []byte("forged ciphertext bytes")}
	binary.BigEndian.PutUint64(d.topHalfCtr[:], 0xfffffffffffffff0)
	unsigned := d.serializeUnsigned()
	mac := c02MAC(key, hdr, unsigned)
	body := append(append([]byte{}, unsigned...), mac...)
	body = AppendData(body, nil)
	return c13B64(append(hdr, body...))
}

// c09StillAccepts: would the principal, as it is now, accept a message authenticated with this key for this pair?
func c09StillAccepts(p *verifPrincipal, k c09Key) bool {
	c := verifClone(p)
	r := c.Receive(c09Forge(c.C, k.Our, k.Their, k.MAC))
	return r.HasPln || verifAccepted(r)
}

func verifC09Sys(id string, seed int64) *verifSys {
	var v, sa, sb, refresh, forge, smpRuns int
	base := id
	if strings.HasSuffix(base, "/M1") {
		// one SMP run started by A at any moment, B gives the same secret when asked: data messages that carry TLVs and
		// are answered from inside Receive
		base, smpRuns = strings.TrimSuffix(base, "/M1"), 1
	}
	if _, err := fmt.Sscanf(base, "v%d/S%d-%d/R%d/F%d", &v, &sa, &sb, &refresh, &forge); err != nil {
		if _, err := fmt.Sscanf(base, "v%d/S%d-%d/R%d", &v, &sa, &sb, &refresh); err != nil {
			return nil
		}
	}
	sys := &verifSys{Prop: "C09", ID: id, Seed: seed}
	sys.Init = func() *verifWorld {
		w := verifEstablished(seed, v, 0)
		w.Mon = &monC09{Budget: [2]int{sa, sb}, Refresh: refresh, Forge: forge, SMP: smpRuns}
		c09Learn(w, 0)
		c09Learn(w, 1)
		w.P[0].Rec.take()
		w.P[1].Rec.take()
		return w
	}
	sys.Evs = func(w *verifWorld) []verifEv {
		m := w.Mon.(*monC09)
		var evs []verifEv
		for i := 0; i < 2; i++ {
			if len(w.Q[i]) > 0 {
				evs = append(evs, verifEv{K: "deliver", I: i})
			}
		}
		for i := 0; i < 2; i++ {
			if m.Budget[i] > 0 {
				evs = append(evs, verifEv{K: "send", I: i})
			}
		}
		if m.SMP > 0 && w.P[0].C.IsEncrypted() {
			evs = append(evs, verifEv{K: "smp", I: 0})
		}
		if m.Forge > 0 {
			// every key pair the receiver would currently consider: (current|previous) x (current|previous)
			for i := 0; i < 2; i++ {
				for j := 1; j <= 4; j++ {
					evs = append(evs, verifEv{K: "forge", I: i, J: j})
				}
			}
		}
		if m.Refresh == 2 && len(w.Q[0])+len(w.Q[1]) == 0 {
			evs = append(evs, verifEv{K: "restart", I: 0})
		} else if m.Refresh > 0 && len(w.Q[0])+len(w.Q[1]) == 0 {
			evs = append(evs, verifEv{K: "refresh", I: 0})
		}
		return evs
	}
	// onEmit: safety oracle on everything principal i just sent
	onEmit := func(w *verifWorld, i int, out [][]byte) (fs []verifFinding) {
		m := w.Mon.(*monC09)
		for _, o := range out {
			_, dm, _, ok := verifParseData(o)
			if !ok {
				continue
			}
			m.NSent++
			for _, rk := range dm.oldMACKeys {
				m.NDisc++
				ix := -1
				for k := range m.Keys[i] {
					if bytes.Equal(m.Keys[i][k].MAC, rk) {
						ix = k
					}
				}
				if ix < 0 {
					fs = append(fs, verifFinding{"C09:disclosed-unknown-value", fmt.Sprintf("%s disclosed %x…, which is not a receiving MAC key of any of its key pairs", w.P[i].Name, rk[:6])})
					continue
				}
				key := &m.Keys[i][ix]
				key.Disclosed = true
				if key.Epoch == m.Epoch[i] {
					m.NProbe++
					if c09StillAccepts(w.P[i], *key) {
						fs = append(fs, verifFinding{"C09:disclosed-live-key", fmt.Sprintf("%s disclosed the MAC key of key pair (our %d, their %d) in this message and still accepts a message authenticated with it (keyids now our=%d their=%d)", w.P[i].Name, key.Our, key.Their, w.P[i].C.keys.ourKeyID, w.P[i].C.keys.theirKeyID)})
					}
				}
			}
		}
		return
	}
	sys.Apply = func(w *verifWorld, e verifEv) []verifFinding {
		m := w.Mon.(*monC09)
		p := w.P[e.I]
		var fs []verifFinding
		var r verifResult
		switch e.K {
		case "send":
			k := m.Budget[e.I]
			m.Budget[e.I]--
			r = p.Send([]byte(fmt.Sprintf("m%d-%d", e.I, k)))
		case "smp":
			m.SMP--
			r = p.StartSMP("", []byte("s"))
		case "forge":
			// a rejected message (current key ids of the receiver's previous/current pair, wrong MAC) owes and forfeits nothing
			m.Forge--
			c := p.C
			our, their := c.keys.ourKeyID-uint32((e.J-1)%2), c.keys.theirKeyID-uint32((e.J-1)/2)
			r = p.Receive(c09Forge(c, our, their, []byte("a wrong key 12345678")))
			if r.HasPln || verifAccepted(r) {
				fs = append(fs, verifFinding{"C09:forged-message-accepted", "a data message with a wrong MAC was accepted"})
			}
			r.Out = nil // error replies are not part of this exploration
		case "refresh":
			m.Refresh--
			verifTick(w.P[0].C)
			verifTick(w.P[1].C)
			w.Q[1] = append(w.Q[1], w.P[0].Query())
			return nil
		case "restart":
			// A ends the session (its disconnect message reaches B, who acknowledges with End), then asks again: the
			// keys used in the ended session are all retired and still owed
			m.Refresh = 0
			re := w.P[0].End()
			c09Learn(w, 0)
			fs = append(fs, onEmit(w, 0, re.Out)...)
			w.push(0, re.Out)
			w.deliverAll(10, nil)
			w.P[1].End()
			verifTick(w.P[0].C)
			verifTick(w.P[1].C)
			w.Q[1] = append(w.Q[1], w.P[0].Query())
			return fs
		case "deliver":
			msg := w.pop(e.I)
			_, dm, _, isData := verifParseData(msg)
			wasKeys := m.Epoch[e.I]
			r = p.Receive(msg)
			if verifHasEvent(r.Events, 'P', int(SMPEventAskForSecret)) {
				a := p.AnswerSMP([]byte("s"))
				r.Out = append(r.Out, a.Out...)
				if a.Panic != "" {
					r.Panic = a.Panic
				}
			}
			if verifHasEvent(r.Events, 'S', int(StillSecure)) || verifHasEvent(r.Events, 'S', int(GoneSecure)) {
				m.Epoch[e.I]++
			}
			if isData && (r.HasPln || verifAccepted(r)) {
				for k := range m.Keys[e.I] {
					key := &m.Keys[e.I][k]
					if key.Epoch == wasKeys && key.Our == dm.recipientKeyID && key.Their == dm.senderKeyID {
						key.Used = true
					}
				}
			}
		}
		if r.Panic != "" {
			fs = append(fs, verifFinding{"C09:panic:" + verifPanicClass(r.Panic), r.Panic})
		}
		c09Learn(w, 0)
		c09Learn(w, 1)
		fs = append(fs, onEmit(w, e.I, r.Out)...)
		w.push(e.I, r.Out)
		return fs
	}
	sys.Final = func(w *verifWorld) []verifFinding {
		m := w.Mon.(*monC09)
		var fs []verifFinding
		// flush: one more message each way, delivered
		for round := 0; round < 2; round++ {
			for i := 0; i < 2; i++ {
				if !w.P[i].C.IsEncrypted() {
					continue
				}
				r := w.P[i].Send([]byte("flush"))
				fs = append(fs, onEmit(w, i, r.Out)...)
				w.push(i, r.Out)
				w.deliverAll(10, func(to int, msg []byte, rr verifResult) {
					c09Learn(w, 0)
					c09Learn(w, 1)
					fs = append(fs, onEmit(w, to, rr.Out)...)
				})
			}
		}
		for i := 0; i < 2; i++ {
			for _, key := range m.Keys[i] {
				if !key.Used || key.Disclosed {
					continue
				}
				if key.Epoch != m.Epoch[i] {
					fs = append(fs, verifFinding{"C09:used-key-never-disclosed:after-refresh", fmt.Sprintf("%s accepted a message under key pair (our %d, their %d) of the session before the refresh; that pair is gone but its MAC key was never disclosed", w.P[i].Name, key.Our, key.Their)})
					continue
				}
				if !c09StillAccepts(w.P[i], key) {
					fs = append(fs, verifFinding{"C09:used-key-never-disclosed", fmt.Sprintf("%s accepted a message under key pair (our %d, their %d), has retired that pair, and never disclosed its MAC key (keyids now our=%d their=%d)", w.P[i].Name, key.Our, key.Their, w.P[i].C.keys.ourKeyID, w.P[i].C.keys.theirKeyID)})
				}
			}
		}
		return fs
	}
	sys.Label = func(w *verifWorld) string {
		m := w.Mon.(*monC09)
		used, disc := 0, 0
		for i := 0; i < 2; i++ {
			for _, k := range m.Keys[i] {
				if k.Used {
					used++
				}
				if k.Disclosed {
					disc++
				}
			}
		}
		return fmt.Sprintf("keys=%d/%d used=%d disclosed=%d epochs=%v", len(m.Keys[0]), len(m.Keys[1]), used, disc, m.Epoch)
	}
	return sys
}

func bnFromBytes(b []byte) *big.Int { return new(big.Int).SetBytes(b) }

func init() {
	verifChecks["C09"] = &verifCheck{
		Level: "model_checking",
		Build: verifC09Sys,
		Run: func(r *verifReport) {
			r.Rule = "all interleavings of Send/deliver of two parties over FIFO queues (per-side budgets, incl. one-directional streams) an optional refresh while encrypted or End + new exchange (R2), an optional SMP run started at any moment (M1: data messages carrying TLVs, answered from inside Receive), and injected data messages with current key ids and a wrong MAC; the monitor recomputes every receiving MAC key each party can form from the DH keys it holds; safety on EVERY emitted data message: each disclosed value is a receiving MAC key of the discloser, and on a clone of the discloser taken right after the send a forged message for that key pair with a fresh counter and a correct MAC under the disclosed key is rejected; liveness at every maximal path after one flush message each way: every key that authenticated an accepted message and whose pair is retired (same behavioural probe) has been disclosed"
			r.Assumptions = []string{"MAC keys are recomputed with the package's own key-derivation function from the DH keys found in the conversations (not an independent implementation)", "End() is not part of this exploration: the keys of an ended session are dropped, not retired by rotation"}
			ids := []string{"v3/S3-3/R0", "v2/S2-2/R0", "v3/S5-0/R0", "v3/S1-4/R0", "v3/S2-2/R1", "v3/S2-2/R0/F1", "v2/S2-1/R0/F1", "v3/S2-2/R2", "v2/S2-1/R2", "v3/S1-1/R0/M1", "v2/S1-1/R0/M1"}
			if r.Tier == "thorough" {
				ids = []string{"v3/S4-4/R0", "v2/S4-4/R0", "v3/S6-0/R0", "v2/S0-6/R0", "v3/S2-5/R0", "v3/S3-3/R1", "v2/S2-2/R1", "v3/S3-3/R0/F1", "v2/S2-2/R0/F2", "v3/S2-2/R1/F1", "v3/S3-3/R2", "v2/S2-2/R2", "v3/S2-2/R0/M1", "v2/S2-2/R0/M1", "v3/S1-1/R1/M1", "v3/S1-2/R0/F1/M1"}
			}
			for _, id := range ids {
				r.explore(verifC09Sys(id, r.Seed))
			}
		},
	}
}
