//go:build verif

package otr3

import (
	"bytes"
	"encoding/base64"
	"encoding/binary"
	"fmt"
	"runtime"
	"sort"
	"strings"
	"sync"
)

// C16 — version and policy negotiation; untouched pass-through of plain text.

// reference: whitespace encoding of a byte ('0' → space, '1' → tab, MSB first)
func refWS(s string) []byte {
	var out []byte
	for _, c := range []byte(s) {
		for bit := 7; bit >= 0; bit-- {
			if c&(1<<uint(bit)) != 0 {
				out = append(out, '\t')
			} else {
				out = append(out, ' ')
			}
		}
	}
	return out
}

var refTagBase = refWS("OT")

// refQueryVersions: versions offered by a query message per the specification's grammar
func refQueryVersions(q string) (vs []int) {
	if !strings.HasPrefix(q, "?OTR") {
		return nil
	}
	rest := q[4:]
	if strings.HasPrefix(rest, "?") {
		vs = append(vs, 1)
		rest = rest[1:]
	}
	if strings.HasPrefix(rest, "v") {
		rest = rest[1:]
		for _, c := range rest {
			if c == '?' {
				break
			}
			if c >= '0' && c <= '9' {
				vs = append(vs, int(c-'0'))
			}
		}
	}
	return
}

func refChoose(offered []int, pol policies) int {
	best := 0
	for _, v := range offered {
		if v == 3 && pol.has(allowV3) && best < 3 {
			best = 3
		}
		if v == 2 && pol.has(allowV2) && best < 2 {
			best = 2
		}
	}
	return best
}

func refAllows(pol policies, v int) bool {
	return (v == 2 && pol.has(allowV2)) || (v == 3 && pol.has(allowV3))
}

// version field of an encoded OTR message, 0 if it is not one
func verifWireVersion(m []byte) int {
	if !bytes.HasPrefix(m, []byte("?OTR:")) || len(m) < 10 {
		return 0
	}
	raw, err := base64.StdEncoding.DecodeString(string(m[5 : 5+4]))
	if err != nil || len(raw) < 2 {
		return 0
	}
	return int(binary.BigEndian.Uint16(raw))
}

type c16Offer struct {
	Name    string
	Kind    string // "query" | "tag" | "commit" | "v1"
	Msg     func(a *verifPrincipal, seed int64) []byte
	Offered func(a *verifPrincipal) []int
	Text    []byte // for tags: the text without the tag
}

func c16Offers() []c16Offer {
	var out []c16Offer
	for _, q := range []string{"?OTR?", "?OTRv?", "?OTRv2?", "?OTRv3?", "?OTRv23?", "?OTRv32?", "?OTR?v2?", "?OTRv4?", "?OTRv24x?", "?OTRv2? friendly text", "?OTR?v?", "?OTRv2? do you speak OTR 3?", "?OTRv3? or version 2?", "?OTRv? 23?", "?OTR? v23?", "?OTRv2?\n3?", "?OTR?v3? 2? 1?"} {
		q := q
		out = append(out, c16Offer{Name: q, Kind: "query", Msg: func(*verifPrincipal, int64) []byte { return []byte(q) }, Offered: func(*verifPrincipal) []int { return refQueryVersions(q) }})
	}
	out = append(out, c16Offer{Name: "own QueryMessage", Kind: "query",
		Msg:     func(a *verifPrincipal, _ int64) []byte { return a.Query() },
		Offered: func(a *verifPrincipal) []int { return refQueryVersions(string(a.Query())) }})
	type tg struct {
		name string
		vs   []int
	}
	for _, t := range []tg{{"2", []int{2}}, {"3", []int{3}}, {"23", []int{2, 3}}, {"1", []int{1}}, {"none", nil}} {
		for _, pos := range []string{"end", "start", "middle"} {
			t, pos := t, pos
			tag := append([]byte{}, refTagBase...)
			for _, v := range t.vs {
				tag = append(tag, refWS(fmt.Sprintf("%d", v))...)
			}
			text := []byte("hello world")
			var msg []byte
			switch pos {
			case "end":
				msg = append(append([]byte{}, text...), tag...)
			case "start":
				msg = append(append([]byte{}, tag...), text...)
			default:
				msg = append(append(append([]byte{}, text[:5]...), tag...), text[5:]...)
			}
			out = append(out, c16Offer{Name: "tag " + t.name + " at " + pos, Kind: "tag", Text: text,
				Msg: func(*verifPrincipal, int64) []byte { return msg }, Offered: func(*verifPrincipal) []int { return t.vs }})
		}
	}
	out = append(out, c16Offer{Name: "own Send with whitespace tag", Kind: "tag", Text: []byte("hi there"),
		Msg: func(a *verifPrincipal, _ int64) []byte {
			c := verifClone(a)
			// the offer is the tagged plaintext itself: versions of A's policy, tag on, no required encryption
			vp := policies(0)
			if a.C.Policies.has(allowV2) {
				vp.add(allowV2)
			}
			if a.C.Policies.has(allowV3) {
				vp.add(allowV3)
			}
			vp.add(sendWhitespaceTag)
			c.C.Policies = vp
			r := c.Send([]byte("hi there"))
			return verifFirst(r.Out)
		},
		Offered: func(a *verifPrincipal) []int {
			var vs []int
			if a.C.Policies.has(allowV2) {
				vs = append(vs, 2)
			}
			if a.C.Policies.has(allowV3) {
				vs = append(vs, 3)
			}
			return vs
		}})
	for _, v := range []int{2, 3} {
		v := v
		out = append(out, c16Offer{Name: fmt.Sprintf("direct v%d DH-Commit", v), Kind: "commit",
			Msg: func(a *verifPrincipal, seed int64) []byte {
				x := verifNewPrincipal(verifConvCfg{Name: "X", Seed: seed, Policies: verifPolFor(v), Version: v, Key: verifKey(seed, "A")})
				x.C.ensureAKE()
				m, err := x.C.sendDHCommit()
				if err != nil {
					panic(err)
				}
				return x.C.fragEncode(m)[0]
			},
			Offered: func(*verifPrincipal) []int { return []int{v} }})
	}
	out = append(out, c16Offer{Name: "v1 key exchange", Kind: "v1", Msg: func(*verifPrincipal, int64) []byte { return []byte("?OTR:AAEKAAAAAA==.") }, Offered: func(*verifPrincipal) []int { return []int{1} }})
	return out
}

type c16Case struct {
	PA, PB string
	Offer  int
}

func c16PolString(p policies) string {
	s := ""
	for _, x := range []struct {
		p policy
		c string
	}{{allowV2, "2"}, {allowV3, "3"}, {requireEncryption, "r"}, {sendWhitespaceTag, "w"}, {whitespaceStartAKE, "s"}, {errorStartAKE, "e"}} {
		if p.has(x.p) {
			s += x.c
		}
	}
	if s == "" {
		s = "-"
	}
	return s
}

func c16RunCase(c c16Case, offers []c16Offer, seed int64) (fs []verifFinding, outcome string) {
	pa, pb := verifParsePol(c.PA), verifParsePol(c.PB)
	w := verifNewPair(verifPairCfg{Seed: seed, PolA: pa, PolB: pb})
	A, B := w.P[0], w.P[1]
	of := offers[c.Offer]
	bad := func(sig, format string, a ...interface{}) {
		fs = append(fs, verifFinding{"C16:" + sig, fmt.Sprintf("A=%s B=%s offer %q: ", c.PA, c.PB, of.Name) + fmt.Sprintf(format, a...)})
	}
	msg := of.Msg(A, seed)
	offered := of.Offered(A)
	h0 := verifHash(B.C)
	check := func(p *verifPrincipal, out [][]byte) {
		for _, o := range out {
			if v := verifWireVersion(o); v != 0 && !refAllows(p.C.Policies, v) {
				bad("emitted-forbidden-version", "%s emitted a v%d message although its policy is %s", p.Name, v, c16PolString(p.C.Policies))
			}
		}
	}
	r := B.Receive(msg)
	if r.Panic != "" {
		bad("panic:"+verifPanicClass(r.Panic), "%s", r.Panic)
		return fs, "panic"
	}
	check(B, r.Out)
	if !pb.isOTREnabled() {
		// no version allowed: every message is handed through unchanged
		if !r.HasPln || !bytes.Equal(r.Plain, msg) || len(r.Out) != 0 || r.Err != "" {
			bad("otr-disabled-not-identity", "with no version allowed Receive returned %q / %d messages / err %q", verifTrunc(r.Plain), len(r.Out), r.Err)
		}
		return fs, "B disabled: pass-through"
	}
	chosen := refChoose(offered, pb)
	starts := chosen != 0
	switch of.Kind {
	case "tag":
		if !bytes.Equal(r.Plain, of.Text) {
			bad("tagged-text-altered", "tagged plaintext delivered as %q, expected %q", verifTrunc(r.Plain), of.Text)
		}
		if !pb.has(whitespaceStartAKE) {
			starts = false
		}
	case "v1":
		starts = false
	}
	var commitV int
	for _, o := range r.Out {
		if guessMessageType(o) == msgGuessDHCommit || guessMessageType(o) == msgGuessDHKey {
			commitV = verifWireVersion(o)
		}
	}
	if !starts {
		for _, o := range r.Out {
			if bytes.HasPrefix(o, []byte("?OTR:")) {
				bad("acted-without-common-version", "B answered with an OTR message (v%d) although the model says no exchange starts (offered %v)", verifWireVersion(o), offered)
			}
		}
		if of.Kind == "tag" {
			// an offer that was not taken up must not have decided anything: a query that offers everything is still
			// answered with the best version of the policy
			want := refChoose([]int{2, 3}, pb)
			r2 := B.Receive([]byte("?OTRv23?"))
			got := 0
			for _, o := range r2.Out {
				if guessMessageType(o) == msgGuessDHCommit {
					got = verifWireVersion(o)
				}
			}
			if r2.Panic != "" {
				bad("panic:"+verifPanicClass(r2.Panic), "%s", r2.Panic)
			} else if got != want {
				bad("ignored-offer-decided-the-version", "after a whitespace tag that started nothing, the query ?OTRv23? is answered with a v%d D-H Commit, the policy's best common version is %d", got, want)
			}
			return fs, fmt.Sprintf("no start (%s), later query → v%d", of.Kind, got)
		}
		if of.Kind != "tag" && of.Kind != "v1" && verifHash(B.C) != h0 {
			// state must be untouched when nothing common is offered
			if B.C.version != nil || B.C.ake != nil {
				bad("state-changed-without-common-version", "B changed state (version set: %v) although nothing acceptable was offered (%v)", B.C.version != nil, offered)
			}
		}
		return fs, fmt.Sprintf("no start (%s)", of.Kind)
	}
	if commitV != chosen {
		bad("wrong-version-chosen", "B answered with version %d, the model chooses max(offered %v ∩ policy) = %d", commitV, offered, chosen)
		return fs, "wrong version"
	}
	if of.Kind == "commit" {
		// the offer came from a scratch conversation; nothing more to run
		return fs, fmt.Sprintf("answers v%d commit with DH-Key", chosen)
	}
	// run the exchange with A to quiescence
	w.push(1, r.Out)
	ok := w.deliverAll(40, func(to int, _ []byte, rr verifResult) {
		if rr.Panic != "" {
			bad("panic:"+verifPanicClass(rr.Panic), "%s", rr.Panic)
		}
		check(w.P[to], rr.Out)
		for _, o := range rr.Out {
			if v := verifWireVersion(o); v != 0 && v != chosen {
				bad("version-changed-midway", "%s emitted a v%d message in an exchange negotiated as v%d", w.P[to].Name, v, chosen)
			}
		}
	})
	wantEnc := refAllows(pa, chosen)
	gotEnc := A.C.IsEncrypted() && B.C.IsEncrypted()
	if !ok {
		bad("no-quiescence", "exchange does not terminate")
	}
	if wantEnc != gotEnc {
		bad("session-mismatch", "model says session=%v (chosen v%d, A allows=%v) but A encrypted=%v B encrypted=%v", wantEnc, chosen, wantEnc, A.C.IsEncrypted(), B.C.IsEncrypted())
	}
	if !wantEnc && (A.C.IsEncrypted() || A.C.version != nil && int(A.C.version.protocolVersion()) == chosen) {
		bad("acted-on-forbidden-version", "A acted on a v%d message that its policy %s forbids", chosen, c.PA)
	}
	if gotEnc && int(A.C.version.protocolVersion()) != chosen {
		bad("wrong-session-version", "session runs v%d, model chose v%d", A.C.version.protocolVersion(), chosen)
	}
	return fs, fmt.Sprintf("v%d session=%v", chosen, gotEnc)
}

// ---------------------------------------------------------------------------
// (b) pass-through of plain text

func refContainsMarker(t []byte) bool {
	return bytes.Contains(t, []byte("?OTR")) || bytes.Contains(t, refTagBase)
}

func c16PassThrough(r *verifReport, texts func(yield func([]byte))) (evals, nontriv int64) {
	var mu sync.Mutex
	work := make(chan [][]byte, 64)
	var wg sync.WaitGroup
	for k := 0; k < runtime.NumCPU(); k++ {
		wg.Add(1)
		go func() {
			defer wg.Done()
			var le, ln int64
			mk := func(pol string) *verifPrincipal {
				return verifNewPrincipal(verifConvCfg{Name: "P", Seed: r.Seed, Policies: verifParsePol(pol), Key: verifKey(r.Seed, "A")})
			}
			senders := []*verifPrincipal{mk("23"), mk("23w"), mk("2w"), mk("-")}
			recvs := []*verifPrincipal{mk("23"), mk("3"), mk("-")}
			{
				// still in plaintext state, but with a key exchange under way (asked by a query / answered a D-H Commit)
				asked := mk("23")
				asked.Receive([]byte("?OTRv23?"))
				answered := mk("3")
				donor := mk("3")
				if c := donor.Receive([]byte("?OTRv3?")); len(c.Out) > 0 {
					answered.Receive(c.Out[0])
				}
				recvs = append(recvs, asked, answered)
			}
			for batch := range work {
				for _, t := range batch {
					if refContainsMarker(t) {
						le++
						continue
					}
					for si, s0 := range senders {
						s := *s0.C // shallow copy is enough: plaintext Send only touches whitespaceState
						out, err := s.Send(ValidMessage(append([]byte{}, t...)))
						if err != nil || len(out) != 1 {
							mu.Lock()
							r.addCase("C16", "C16:plaintext-send-failed", fmt.Sprintf("Send(%q) in plaintext state: %d messages, err %v", t, len(out), err), map[string]string{"text": string(t)})
							mu.Unlock()
							continue
						}
						if !s0.C.Policies.isOTREnabled() && !bytes.Equal(out[0], t) {
							mu.Lock()
							r.addCase("C16", "C16:otr-disabled-send-not-identity", fmt.Sprintf("Send(%q) with no version allowed gives %q", t, out[0]), map[string]string{"text": string(t)})
							mu.Unlock()
						}
						for _, r0 := range recvs {
							rc := *r0.C
							plain, ts, err := rc.Receive(ValidMessage(append([]byte{}, out[0]...)))
							le++
							if si == 1 || si == 2 {
								ln++
							}
							want := t
							if !r0.C.Policies.isOTREnabled() {
								want = out[0] // identity on bytes, tag and all
							}
							if err != nil || !bytes.Equal(plain, want) || len(ts) != 0 {
								sig := "C16:plaintext-altered"
								if si == 0 || si == 3 {
									sig = "C16:untagged-plaintext-altered"
								}
								mu.Lock()
								r.addCase("C16", sig, fmt.Sprintf("text %q sent with policy %s and received with policy %s comes out as %q (err %v, %d replies)", t, c16PolString(s0.C.Policies), c16PolString(r0.C.Policies), plain, err, len(ts)),
									map[string]string{"text": string(t), "sender": c16PolString(s0.C.Policies), "receiver": c16PolString(r0.C.Policies)})
								mu.Unlock()
							}
						}
					}
				}
			}
			mu.Lock()
			evals += le
			nontriv += ln
			mu.Unlock()
		}()
	}
	var batch [][]byte
	texts(func(t []byte) {
		batch = append(batch, append([]byte{}, t...))
		if len(batch) == 512 {
			work <- batch
			batch = nil
		}
	})
	if len(batch) > 0 {
		work <- batch
	}
	close(work)
	wg.Wait()
	return
}

func init() {
	verifChecks["C16"] = &verifCheck{
		Level: "model_checking",
		ReplayCase: func(cj string, seed int64) []verifFinding {
			var dc c16DCase
			if jsonUnmarshal(cj, &dc) == nil && dc.Flags != "" {
				return c16DReplay(dc, seed)
			}
			var xc c16XCase
			if jsonUnmarshal(cj, &xc) == nil && xc.Input != "" {
				return c16XReplay(xc, seed)
			}
			var c c16Case
			if jsonUnmarshal(cj, &c) == nil && c.PA != "" {
				fs, _ := c16RunCase(c, c16Offers(), seed)
				return fs
			}
			var m map[string]string
			if jsonUnmarshal(cj, &m) != nil {
				return nil
			}
			r := &verifReport{Prop: "C16", Seed: seed, Outcomes: map[string]int64{}, Extra: map[string]interface{}{}}
			c16PassThrough(r, func(yield func([]byte)) { yield([]byte(m["text"])) })
			var fs []verifFinding
			for _, v := range r.Violations {
				fs = append(fs, verifFinding{v.Sig, v.Detail})
			}
			return fs
		},
		Run: func(r *verifReport) {
			r.Rule = "(a) negotiation: policy set of A × policy set of B × every offer form (11 literal queries incl. unknown versions and v1, the peer's own QueryMessage, whitespace tags for {2},{3},{2,3},{1},{} at start/middle/end and the peer's own tagged Send, direct v2/v3 DH-Commit, v1 key exchange), each run to quiescence on FIFO queues and compared with the reference model chosen = max(offered ∩ mine), session ⇔ chosen allowed by the peer; after a whitespace tag that starts nothing, a query offering everything is still answered with the policy's best version; version field of every emitted message checked against the emitter's policy. (b) pass-through: every text of length ≤ 9 (quick: 8) over {a, space, tab, ?} and every concatenation of ≤ 3 atoms from {x, tag base, its first 15 bytes, its last 15 bytes, v2 tag, v3 tag, 8 spaces, ?OT}, minus texts containing an OTR marker, and one text of every length 1..2100, through Send (4 sender policies) and Receive (3 receiver policies, plus two receivers that are in plaintext state with a key exchange under way). (c) a v3-only and a v2-only conversation in every state of an honest exchange (fresh, each handshake step in both roles, encrypted, after traffic, finished) × every input in the form of the forbidden version: each message kind and fragment of an exchange run under that version (whole and in its fragment format), the genuine next message of its own peer with the version field rewritten, and the genuine next message wrapped in 1-3 fragments of the forbidden version's fragment format (also followed by the genuine train): no plaintext, no OTR reply, no security/SMP event, conversation state hash unchanged, genuine traffic afterwards undisturbed. (d) every policy without a version (all 16 flag combinations) × {every message kind and fragment of a v2 and a v3 exchange, queries, error reports, truncated and marker-only messages, fragment-looking strings, tagged and plain text, the empty message}: Receive returns the message itself, nothing to send, no error, unchanged state; Send returns exactly the message"
			r.Assumptions = []string{"interleavings of the exchange are C07's job: FIFO round-robin delivery here", "a text 'contains an OTR marker' iff it contains \"?OTR\" or the complete 16-byte whitespace tag base"}
			offers := c16Offers()
			vers := []string{"2", "3", "23"}
			flags := []string{"", "r", "ws", "e", "rwse"}
			if r.Tier == "thorough" {
				flags = nil
				for m := 0; m < 16; m++ {
					f := ""
					for i, c := range "rwse" {
						if m&(1<<uint(i)) != 0 {
							f += string(c)
						}
					}
					flags = append(flags, f)
				}
			}
			var pols []string
			for _, v := range vers {
				for _, f := range flags {
					pols = append(pols, v+f)
				}
			}
			pols = append(pols, "-", "rwse")
			var cases []c16Case
			for _, a := range pols {
				for _, b := range pols {
					for o := range offers {
						cases = append(cases, c16Case{a, b, o})
					}
				}
			}
			var mu sync.Mutex
			var wg sync.WaitGroup
			next := 0
			outcomes := map[string]int64{}
			for k := 0; k < runtime.NumCPU(); k++ {
				wg.Add(1)
				go func() {
					defer wg.Done()
					for {
						mu.Lock()
						i := next
						next++
						mu.Unlock()
						if i >= len(cases) {
							return
						}
						fs, oc := c16RunCase(cases[i], offers, r.Seed)
						mu.Lock()
						outcomes[oc]++
						r.States++      // one negotiation run = one trace compared with the reference model
						r.Transitions++ // (counted properly below)
						for _, f := range fs {
							r.addCase("C16", f.Sig, f.Detail, cases[i])
						}
						mu.Unlock()
					}
				}()
			}
			wg.Wait()
			r.States, r.Transitions = 0, 0
			r.Evals = int64(len(cases))
			for k, n := range outcomes {
				r.Outcomes["negotiation: "+k] = n
				if !strings.HasPrefix(k, "no start") && !strings.HasPrefix(k, "B disabled") {
					r.Nontrivial += n
				}
			}
			r.Extra["negotiation_cases"] = len(cases)
			r.Extra["policy_sets"] = pols
			var names []string
			for _, o := range offers {
				names = append(names, o.Name)
			}
			sort.Strings(names)
			r.Extra["offer_forms"] = names
			r.sample(map[string]interface{}{"negotiation": cases[len(cases)/3], "offer": offers[cases[len(cases)/3].Offer].Name})
			// (c), (d)
			c16Cross(r)
			c16Disabled(r)
			// (b)
			maxLen := 8
			if r.Tier == "thorough" {
				maxLen = 9
			}
			alpha := []byte{'a', ' ', '\t', '?'}
			atoms := [][]byte{[]byte("x"), refTagBase, refTagBase[:15], refTagBase[1:], refWS("2"), refWS("3"), []byte("        "), []byte("?OT")}
			e, n := c16PassThrough(r, func(yield func([]byte)) {
				cnt := c13EnumCount(len(alpha), maxLen)
				for i := 0; i < cnt; i++ {
					yield(c13EnumString(i, alpha, maxLen))
				}
				// every length up to 2100 (allocation size classes, lengths around powers of two): the text must come
				// out of Send and into Receive unchanged whatever room its buffer happens to have
				for l := 1; l <= 2100; l++ {
					t := make([]byte, l)
					for i := range t {
						t[i] = byte('a' + (i*7+l)%26)
					}
					yield(t)
				}
				for i := range atoms {
					yield(atoms[i])
					for j := range atoms {
						yield(append(append([]byte{}, atoms[i]...), atoms[j]...))
						for k := range atoms {
							yield(append(append(append([]byte{}, atoms[i]...), atoms[j]...), atoms[k]...))
						}
					}
				}
			})
			r.Evals += e
			r.Nontrivial += n
			r.Extra["passthrough_send_receive_pairs"] = e
			r.sample(map[string]string{"passthrough": "a \t?a \t", "note": "every text ≤ maxLen over {a,space,tab,?} and every ≤3-atom concatenation"})
		},
	}
}
