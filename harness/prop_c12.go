//go:build verif

package otr3

import (
	"bytes"
	"fmt"
	"math/big"
	"runtime"
	"strings"
	"sync"
)

// C12 — deviant SMP messages never produce success, a crash or a stuck state machine.
// The victim's peer is used as a factory of correctly authenticated data messages with arbitrary TLVs.

type c12State struct {
	Name string
	W    *verifWorld
	V    int   // the victim
	Next []tlv // the genuine SMP TLV(s) in flight towards the victim (nil: none)
}

// c12Wrap: a clone of the victim's peer emits a correctly authenticated data message carrying the TLVs
func c12Wrap(peer *verifPrincipal, tlvs []tlv) []byte {
	f := verifClone(peer)
	var ms []ValidMessage
	func() {
		defer func() { _ = recover() }()
		ms, _, _ = f.C.createSerializedDataMessage(nil, messageFlagIgnoreUnreadable, tlvs)
	}()
	if len(ms) != 1 {
		return nil
	}
	return ms[0]
}

func c12SMPTLVs(sender *verifPrincipal, out [][]byte) (ts []tlv) {
	for _, o := range out {
		info := verifOpenOwn(sender.C, o)
		for _, t := range info.TLVs {
			if t.tlvType >= tlvTypeSMP1 && t.tlvType <= tlvTypeSMP1WithQuestion {
				ts = append(ts, tlv{t.tlvType, t.tlvLength, append([]byte{}, t.tlvValue...)})
			}
		}
	}
	return
}

// c12States: the victim in every SMP state, in both roles, with the genuine next message recorded
func c12States(seed int64, v int) (states []c12State) {
	base := verifEstablished(seed, v, 0)
	base.P[0].Rec.take()
	base.P[1].Rec.take()
	add := func(name string, w *verifWorld, victim int, next []tlv) {
		c := w.clone()
		c.Q[0], c.Q[1] = nil, nil
		c.P[0].Rec.take()
		c.P[1].Rec.take()
		states = append(states, c12State{fmt.Sprintf("v%d/%s", v, name), c, victim, next})
	}
	for _, q := range []string{"", "question?"} {
		// victim = B as responder, A initiates
		w := base.clone()
		r1 := w.P[0].StartSMP(q, []byte("s"))
		t1 := c12SMPTLVs(w.P[0], r1.Out)
		qn := "noq"
		if q != "" {
			qn = "q"
		}
		add("expect1-"+qn, w, 1, t1)
		if q != "" {
			continue
		}
		w.P[1].Receive(r1.Out[0])
		add("waiting-for-secret", w, 1, nil)
		r2 := w.P[1].AnswerSMP([]byte("s"))
		t2 := c12SMPTLVs(w.P[1], r2.Out)
		add("expect2", w, 0, t2) // victim = A as initiator
		add("expect3-no-smp3-yet", w, 1, nil)
		r3 := w.P[0].Receive(r2.Out[0])
		t3 := c12SMPTLVs(w.P[0], r3.Out)
		add("expect3", w, 1, t3)
		r4 := w.P[1].Receive(r3.Out[0])
		t4 := c12SMPTLVs(w.P[1], r4.Out)
		add("expect4", w, 0, t4)
	}
	add("never-ran-smp", base, 0, nil)
	return
}

// c12WithForeign appends the states of an unrelated run (their genuine messages are the out-of-sequence material)
func c12WithForeign(sts []c12State, seed int64, v int) []c12State {
	all := append([]c12State{}, sts...)
	for _, f := range c12States(seed+1000, v) {
		f.Name = "foreign/" + f.Name
		all = append(all, f)
	}
	return all
}

func c12Values(honest *big.Int) (vals []*big.Int, names []string) {
	add := func(n string, v *big.Int) { vals = append(vals, v); names = append(names, n) }
	one := big.NewInt(1)
	add("0", big.NewInt(0))
	add("1", big.NewInt(1))
	add("2", big.NewInt(2))
	add("p-2", new(big.Int).Sub(p, big.NewInt(2)))
	add("p-1", new(big.Int).Sub(p, one))
	add("p", new(big.Int).Set(p))
	add("p+1", new(big.Int).Add(p, one))
	add("q", new(big.Int).Set(q))
	add("q-1", new(big.Int).Sub(q, one))
	add("q+1", new(big.Int).Add(q, one))
	add("honest-1", new(big.Int).Sub(honest, one))
	add("honest+1", new(big.Int).Add(honest, one))
	add("honest+p", new(big.Int).Add(honest, p))
	add("2^2000", new(big.Int).Lsh(one, 2000))
	return
}

type c12Case struct {
	State string `json:"state"`
	Desc  string `json:"deviation"`
}

type c12Dev struct {
	Desc  string
	Class string
	TLVs  []tlv
	// GenuineFirst: the data message starts with the genuine TLV; what that TLV legitimately causes (a reply, success
	// at the last step) is not caused by the deviation
	GenuineFirst bool
}

func c12MkTLV(ty uint16, question []byte, mpis []*big.Int) tlv {
	data := AppendWord(nil, uint32(len(mpis)))
	data = AppendMPIs(data, mpis...)
	if question != nil {
		data = append(append(append([]byte{}, question...), 0), data...)
	}
	return tlv{tlvType: ty, tlvLength: uint16(len(data)), tlvValue: data}
}

func c12Split(t tlv) (question []byte, mpis []*big.Int, ok bool) {
	v := t.tlvValue
	if t.tlvType == tlvTypeSMP1WithQuestion {
		i := bytes.IndexByte(v, 0)
		if i < 0 {
			return nil, nil, false
		}
		question, v = append([]byte{}, v[:i]...), v[i+1:]
	}
	_, mpis, ok = ExtractMPIs(v)
	return
}

// deviations derived from the genuine next message of a state
func c12Deviations(st c12State, allStates []c12State) (out []c12Dev) {
	for _, g := range st.Next {
		qn, mpis, ok := c12Split(g)
		if !ok {
			continue
		}
		kind := fmt.Sprintf("SMP-TLV-%d", g.tlvType)
		for i := range mpis {
			vals, names := c12Values(mpis[i])
			for k := range vals {
				m2 := append([]*big.Int{}, mpis...)
				m2[i] = vals[k]
				out = append(out, c12Dev{Desc: fmt.Sprintf("%s field %d = %s", kind, i, names[k]), Class: "field=" + names[k], TLVs: []tlv{c12MkTLV(g.tlvType, qn, m2)}})
			}
		}
		// miscounts and bad length prefixes
		n := len(mpis)
		body := AppendMPIs(nil, mpis...)
		for _, cnt := range []uint32{uint32(n - 1), uint32(n + 1), 0, 1 << 31, 0xffffffff} {
			d := append(AppendWord(nil, cnt), body...)
			if qn != nil {
				d = append(append(append([]byte{}, qn...), 0), d...)
			}
			out = append(out, c12Dev{Desc: fmt.Sprintf("%s with MPI count %d instead of %d", kind, cnt, n), Class: "count", TLVs: []tlv{{g.tlvType, uint16(len(d)), d}}})
		}
		out = append(out, c12Dev{Desc: kind + " with one MPI dropped", Class: "count", TLVs: []tlv{c12MkTLV(g.tlvType, qn, mpis[:n-1])}})
		out = append(out, c12Dev{Desc: kind + " with one MPI appended", Class: "count", TLVs: []tlv{c12MkTLV(g.tlvType, qn, append(append([]*big.Int{}, mpis...), big.NewInt(7)))}})
		{
			d := AppendWord(nil, uint32(n))
			d = append(d, AppendWord(nil, 0xffffffff)...)
			d = append(d, body...)
			out = append(out, c12Dev{Desc: kind + " whose first MPI length is 4 GiB", Class: "length", TLVs: []tlv{{g.tlvType, uint16(len(d)), d}}})
			full := c12MkTLV(g.tlvType, qn, mpis)
			out = append(out, c12Dev{Desc: kind + " truncated by 1 byte", Class: "length", TLVs: []tlv{{g.tlvType, uint16(len(full.tlvValue) - 1), full.tlvValue[:len(full.tlvValue)-1]}}})
			out = append(out, c12Dev{Desc: kind + " truncated to 5 bytes", Class: "length", TLVs: []tlv{{g.tlvType, 5, full.tlvValue[:5]}}})
			out = append(out, c12Dev{Desc: kind + " empty", Class: "length", TLVs: []tlv{{g.tlvType, 0, nil}}})
		}
		if g.tlvType == tlvTypeSMP1WithQuestion {
			full := c12MkTLV(tlvTypeSMP1, nil, mpis)
			out = append(out, c12Dev{Desc: "SMP1Q without the NUL after the question", Class: "question", TLVs: []tlv{{tlvTypeSMP1WithQuestion, uint16(len(full.tlvValue)), bytes.ReplaceAll(full.tlvValue, []byte{0}, []byte{1})}}})
			out = append(out, c12Dev{Desc: "SMP1Q with an empty question", Class: "question", TLVs: []tlv{c12MkTLV(tlvTypeSMP1WithQuestion, []byte{}, mpis)}, GenuineFirst: true})
			out = append(out, c12Dev{Desc: "SMP1Q with a 60000-byte question", Class: "question", TLVs: []tlv{c12MkTLV(tlvTypeSMP1WithQuestion, bytes.Repeat([]byte("q"), 60000), mpis)}, GenuineFirst: true})
		}
		// the genuine message twice in one data message, and followed by an abort
		out = append(out, c12Dev{kind + " duplicated in one data message", "duplicate", []tlv{g, g}, true})
		out = append(out, c12Dev{kind + " followed by an abort", "abort-after", []tlv{g, {tlvType: tlvTypeSMPAbort}}, true})
		out = append(out, c12Dev{"abort followed by " + kind, "abort-before", []tlv{{tlvType: tlvTypeSMPAbort}, g}, false})
	}
	// well-formed messages of another run (other session, other randomness): never valid here, whatever the state
	for _, o := range allStates {
		if !strings.HasPrefix(o.Name, "foreign/") || strings.Contains(o.Name, "/v2/") != strings.HasPrefix(st.Name, "v2") {
			continue
		}
		for _, g := range o.Next {
			if (g.tlvType == tlvTypeSMP1 || g.tlvType == tlvTypeSMP1WithQuestion) && strings.Contains(st.Name, "expect1") || strings.Contains(st.Name, "never-ran") && g.tlvType == tlvTypeSMP1 {
				continue // an SMP1 of any run is a legitimate new start when none is in progress
			}
			if g.tlvType == tlvTypeSMP1 || g.tlvType == tlvTypeSMP1WithQuestion {
				if strings.Contains(st.Name, "never-ran") {
					continue
				}
			}
			out = append(out, c12Dev{Desc: fmt.Sprintf("out of sequence / foreign: TLV %d of another run (%s)", g.tlvType, o.Name), Class: "sequence", TLVs: []tlv{g}})
		}
	}
	out = append(out, c12Dev{Desc: "abort", Class: "abort", TLVs: []tlv{{tlvType: tlvTypeSMPAbort}}})
	return
}

// c12Recover: after the deviation, an abort by the user and a fresh honest run with equal secrets must succeed
func c12Recover(w *verifWorld, v int) string {
	defer func() { _ = recover() }()
	V, P := w.P[v], w.P[1-v]
	w.Q[0], w.Q[1] = nil, nil
	r := V.AbortSMP()
	if r.Panic != "" {
		return "AbortAuthentication panicked: " + r.Panic
	}
	w.push(v, r.Out)
	w.deliverAll(20, nil)
	r = P.AbortSMP()
	w.push(1-v, r.Out)
	w.deliverAll(20, nil)
	V.Rec.take()
	P.Rec.take()
	succ := [2]int{}
	for round := 0; round < 2; round++ {
		ini := []int{1 - v, v}[round]
		succ = [2]int{}
		s := w.P[ini].StartSMP("", []byte("recover"))
		if s.Panic != "" || s.Err != "" {
			return fmt.Sprintf("a fresh StartAuthenticate fails afterwards: %s%s", s.Err, s.Panic)
		}
		w.push(ini, s.Out)
		bad := ""
		handle := func(to int, rr verifResult) {
			if rr.Panic != "" {
				bad = rr.Panic
			}
			for _, ev := range rr.Events {
				if ev.Kind == 'P' && SMPEvent(ev.Code) == SMPEventSuccess {
					succ[to]++
				}
			}
		}
		for step := 0; step < 20; step++ {
			progressed := false
			for to := 0; to < 2; to++ {
				if len(w.Q[to]) == 0 {
					continue
				}
				progressed = true
				rr := w.P[to].Receive(w.pop(to))
				handle(to, rr)
				w.push(to, rr.Out)
				for _, ev := range rr.Events {
					if ev.Kind == 'P' && (SMPEvent(ev.Code) == SMPEventAskForSecret || SMPEvent(ev.Code) == SMPEventAskForAnswer) {
						a := w.P[to].AnswerSMP([]byte("recover"))
						handle(to, a)
						w.push(to, a.Out)
					}
				}
			}
			if !progressed {
				break
			}
		}
		if bad != "" {
			return "panic during the fresh run: " + bad
		}
		if succ[0] != 1 || succ[1] != 1 {
			return fmt.Sprintf("a fresh honest run (initiated by %s) with equal secrets ends with success events %v", w.P[ini].Name, succ)
		}
	}
	return ""
}

type c12Runner struct {
	mu        sync.Mutex
	recovered map[[16]byte]string
}

func (x *c12Runner) eval(st c12State, d c12Dev) (fs []verifFinding) {
	bad := func(sig, format string, a ...interface{}) {
		fs = append(fs, verifFinding{"C12:" + sig, fmt.Sprintf("state %s, %s: ", st.Name, d.Desc) + fmt.Sprintf(format, a...)})
	}
	w := st.W.clone()
	V := w.P[st.V]
	msg := c12Wrap(w.P[1-st.V], d.TLVs)
	if msg == nil {
		return nil
	}
	r := V.Receive(msg)
	if r.Panic != "" {
		bad("panic:"+verifPanicClass(r.Panic), "%s", r.Panic)
		return
	}
	ver := st.Name[:2]
	reacted := r.Err != ""
	for _, ev := range r.Events {
		if ev.Kind == 'P' && SMPEvent(ev.Code) == SMPEventSuccess && !d.GenuineFirst {
			bad("success-on-deviant-message:"+ver+":"+d.Class, "the victim reports SMP success")
		}
		if ev.Kind == 'P' || ev.Kind == 'M' {
			reacted = true
		}
	}
	if len(r.Out) > 0 {
		reacted = true
	}
	if d.Class == "sequence" {
		// a well-formed message that the state does not expect: "aborts, reports cheating or error"
		abortish := false
		for _, ev := range r.Events {
			if c := SMPEvent(ev.Code); ev.Kind == 'P' && (c == SMPEventError || c == SMPEventCheated || c == SMPEventAbort || c == SMPEventFailure) {
				abortish = true
			}
		}
		if !abortish {
			bad("out-of-sequence-message-not-refused", "events %s: neither error, cheating, failure nor abort is reported", verifEventsString(r.Events))
		}
	}
	if !reacted && !d.GenuineFirst {
		// "the party aborts, reports cheating or error": a deviant message that is swallowed without any event, error
		// or reply has been accepted into the state machine
		bad("deviant-message-swallowed:"+d.Class, "no event, no error, no reply: the message was taken in silently")
	}
	// a reply the victim sends is delivered to the real peer; whatever comes back must not give success either
	w.push(st.V, r.Out)
	asked := false
	w.deliverAll(10, func(to int, _ []byte, rr verifResult) {
		if rr.Panic != "" {
			bad("panic:"+verifPanicClass(rr.Panic), "%s", rr.Panic)
		}
		for _, ev := range rr.Events {
			if ev.Kind == 'P' && SMPEvent(ev.Code) == SMPEventSuccess && !d.GenuineFirst {
				bad("success-on-deviant-message:"+ver+":"+d.Class, "%s reports SMP success in a run that contained the deviant message", w.P[to].Name)
			}
		}
	})
	for _, ev := range r.Events {
		if ev.Kind == 'P' && (SMPEvent(ev.Code) == SMPEventAskForSecret || SMPEvent(ev.Code) == SMPEventAskForAnswer) {
			asked = true
		}
	}
	_ = asked
	h := verifHash(w)
	x.mu.Lock()
	rec, ok := x.recovered[h]
	x.mu.Unlock()
	if !ok {
		rec = c12Recover(w, st.V)
		x.mu.Lock()
		x.recovered[h] = rec
		x.mu.Unlock()
	}
	if rec != "" {
		bad("no-recovery:"+d.Class, "%s", rec)
	}
	return
}

// ---------------------------------------------------------------------------
// the malicious prover: degenerate group elements with proofs recomputed so that the Fiat–Shamir checks pass

func c12Hash(v otrVersion, ix byte, vals ...*big.Int) *big.Int {
	return hashMPIsBN(v.hash2Instance(), ix, vals...)
}

type c12Attack struct {
	Ver    int    `json:"version"`
	Attack string `json:"attack"`
}

var c12Attacks = func() []string {
	as := []string{"smp1-unit-elements-then-forged-smp3", "smp2-unit-elements-then-forged-smp4", "smp2-pb1-qb0", "smp1-g2a-0", "smp1-g2a-p-1", "smp2-g2b-0-then-smp4-rb-0", "smp2-g2b-p-then-smp4-rb-p"}
	// Pb, Qb of SMP2 (Pa, Qa, Ra of SMP3) taken from {1, 0, p, 2p} — every representative of the residues 0 and 1 that fits
	// the wire format differently — with the proofs recomputed over exactly these values
	vals := []string{"0", "p", "2p", "1"}
	for _, a := range vals {
		for _, b := range vals {
			as = append(as, "smp2:pb="+a+":qb="+b)
		}
	}
	for _, a := range vals {
		for _, b := range vals {
			for _, c := range vals {
				if a == "1" && b == "1" {
					continue
				}
				as = append(as, "smp3:pa="+a+":qa="+b+":ra="+c)
			}
		}
	}
	return as
}()

func c12Degenerate(name string) *big.Int {
	switch name {
	case "0":
		return big.NewInt(0)
	case "p":
		return new(big.Int).Set(p)
	case "2p":
		return new(big.Int).Lsh(p, 1)
	}
	return big.NewInt(1)
}

// x^c mod p for x in {0, p, 2p, 1} and a non-zero exponent
func c12DegPow(x *big.Int) *big.Int {
	return new(big.Int).Mod(x, p)
}

// c12RunAttack plays a cheating peer that knows the session keys but NOT the secret
func c12RunAttack(at c12Attack, seed int64) (fs []verifFinding, outcome string) {
	w := verifEstablished(seed, at.Ver, 0)
	V, P := w.P[1], w.P[0] // victim B; the attacker speaks through A's session keys
	V.Rec.take()
	var v otrVersion = otrV3{}
	if at.Ver == 2 {
		v = otrV2{}
	}
	one := big.NewInt(1)
	bad := func(sig, format string, a ...interface{}) {
		fs = append(fs, verifFinding{"C12:" + sig, fmt.Sprintf("[v%d %s] ", at.Ver, at.Attack) + fmt.Sprintf(format, a...)})
	}
	var events []string
	send := func(t tlv) verifResult {
		m := c12Wrap(P, []tlv{t})
		// keep the attacker's ratchet in step with what it sent
		_, _, _ = P.C.createSerializedDataMessage(nil, messageFlagIgnoreUnreadable, []tlv{t})
		r := V.Receive(m)
		if r.Panic != "" {
			bad("panic:"+verifPanicClass(r.Panic), "%s", r.Panic)
		}
		for _, ev := range r.Events {
			if ev.Kind == 'P' {
				events = append(events, SMPEvent(ev.Code).String())
				if SMPEvent(ev.Code) == SMPEventSuccess {
					bad(fmt.Sprintf("success-without-secret:v%d:%s", at.Ver, at.Attack), "the victim reports SMP success to a peer that does not know the secret")
				}
			}
		}
		return r
	}
	victimTLVs := func(r verifResult) []tlv {
		var ts []tlv
		for _, o := range r.Out {
			info := verifOpenAsReceiver(P.C, o)
			P.Receive(o)
			for _, t := range info.TLVs {
				if t.tlvType >= tlvTypeSMP1 && t.tlvType <= tlvTypeSMP1WithQuestion {
					ts = append(ts, t)
				}
			}
		}
		return ts
	}
	d := big.NewInt(123456789)
	gd := modExpP(g1, d)
	if strings.HasPrefix(at.Attack, "smp2:") || strings.HasPrefix(at.Attack, "smp3:") {
		f := strings.Split(at.Attack, ":")
		val := func(i int) *big.Int { return c12Degenerate(f[i][strings.IndexByte(f[i], '=')+1:]) }
		class := "degenerate-" + f[0]
		success := func() {
			// one signature per message kind: every combination is the same missing range check
			bad(fmt.Sprintf("success-without-secret:v%d:%s", at.Ver, class), "the victim reports SMP success to a peer that does not know the secret")
		}
		sendD := func(t tlv) verifResult {
			m := c12Wrap(P, []tlv{t})
			_, _, _ = P.C.createSerializedDataMessage(nil, messageFlagIgnoreUnreadable, []tlv{t})
			r := V.Receive(m)
			if r.Panic != "" {
				bad("panic:"+verifPanicClass(r.Panic), "%s", r.Panic)
			}
			for _, ev := range r.Events {
				if ev.Kind == 'P' {
					events = append(events, SMPEvent(ev.Code).String())
					if SMPEvent(ev.Code) == SMPEventSuccess {
						success()
					}
				}
			}
			return r
		}
		b := big.NewInt(1) // the attacker's exponents b2 = b3 (a2 = a3) = 1
		if f[0] == "smp2" {
			pb, qb := val(1), val(2)
			s := V.StartSMP("", []byte("the real secret"))
			ts := victimTLVs(s)
			if len(ts) == 0 {
				return fs, "victim did not start"
			}
			_, m1, ok := c12Split(ts[len(ts)-1])
			if !ok || len(m1) < 6 {
				return fs, "no SMP1 from the victim"
			}
			g2a, g3a := m1[0], m1[3]
			g2b, g3b := modExpP(g1, b), modExpP(g1, b)
			r2, r3 := big.NewInt(11), big.NewInt(12)
			c2 := c12Hash(v, 3, modExpP(g1, r2))
			d2 := subMod(r2, mul(b, c2), q)
			c3 := c12Hash(v, 4, modExpP(g1, r3))
			d3 := subMod(r3, mul(b, c3), q)
			g2v, g3v := modExpP(g2a, b), modExpP(g3a, b)
			d5, d6 := big.NewInt(55), big.NewInt(66)
			// cP = H(5, g3^d5 * pb^cP, g1^d5 * g2^d6 * qb^cP): with pb, qb ≡ 0 or 1 the powers do not depend on cP
			cp := c12Hash(v, 5, mulMod(modExpP(g3v, d5), c12DegPow(pb), p), mulMod(mulMod(modExpP(g1, d5), modExpP(g2v, d6), p), c12DegPow(qb), p))
			r2m := sendD(c12MkTLV(tlvTypeSMP2, nil, []*big.Int{g2b, c2, d2, g3b, c3, d3, pb, qb, cp, d5, d6}))
			ts3 := victimTLVs(r2m)
			var m3 []*big.Int
			for _, t3 := range ts3 {
				if t3.tlvType == tlvTypeSMP3 {
					_, m3, _ = c12Split(t3)
				}
			}
			if len(m3) < 8 {
				return fs, "rejected at SMP2: " + strings.Join(events, ",")
			}
			// the victim went on: try to finish with Rb chosen so that the final comparison is between degenerate values
			for _, rbn := range []string{"0", "1"} {
				rb := c12Degenerate(rbn)
				d7 := big.NewInt(888)
				qa := m3[1]
				var qaqb *big.Int
				if new(big.Int).Mod(qb, p).Sign() == 0 {
					qaqb = big.NewInt(0)
				} else {
					qaqb = divMod(qa, qb, p)
				}
				// cR = H(8, g1^d7 * g3b^cR, (Qa/Qb)^d7 * Rb^cR); with b3 = 1 honest proof of g3b: r7 = d7 + cR
				r7 := big.NewInt(4242)
				second := modExpP(qaqb, r7)
				if rb.Sign() == 0 {
					second = big.NewInt(0)
				}
				cr := c12Hash(v, 8, modExpP(g1, r7), second)
				d7 = subMod(r7, mul(b, cr), q)
				sendD(c12MkTLV(tlvTypeSMP4, nil, []*big.Int{rb, cr, d7}))
			}
			return fs, "accepted degenerate SMP2: " + strings.Join(events, ",")
		}
		// smp3: the attacker initiates honestly (a2 = a3 = 1), the victim answers, the attacker sends a degenerate SMP3
		pa, qa, ra := val(1), val(2), val(3)
		r2, r3 := big.NewInt(21), big.NewInt(22)
		g2a, g3a := modExpP(g1, b), modExpP(g1, b)
		c2 := c12Hash(v, 1, modExpP(g1, r2))
		d2 := subMod(r2, mul(b, c2), q)
		c3 := c12Hash(v, 2, modExpP(g1, r3))
		d3 := subMod(r3, mul(b, c3), q)
		r1 := sendD(c12MkTLV(tlvTypeSMP1, nil, []*big.Int{g2a, c2, d2, g3a, c3, d3}))
		asked := false
		for _, ev := range r1.Events {
			if ev.Kind == 'P' && SMPEvent(ev.Code) == SMPEventAskForSecret {
				asked = true
			}
		}
		if !asked {
			return fs, "honest SMP1 not accepted: " + strings.Join(events, ",")
		}
		a := V.AnswerSMP([]byte("the real secret"))
		if a.Panic != "" {
			bad("panic:"+verifPanicClass(a.Panic), "%s", a.Panic)
			return fs, "panic"
		}
		ts := victimTLVs(a)
		if len(ts) == 0 {
			return fs, "no SMP2 from the victim"
		}
		_, m2, ok := c12Split(ts[len(ts)-1])
		if !ok || len(m2) < 11 {
			return fs, "no SMP2 from the victim"
		}
		g2v, g3v, qb := modExpP(m2[0], b), modExpP(m2[3], b), m2[7]
		d5, d6 := big.NewInt(55), big.NewInt(66)
		cp := c12Hash(v, 6, mulMod(modExpP(g3v, d5), c12DegPow(pa), p), mulMod(mulMod(modExpP(g1, d5), modExpP(g2v, d6), p), c12DegPow(qa), p))
		qaqb := mulMod(new(big.Int).Mod(qa, p), modInverse(qb, p), p)
		// cR = H(7, g1^d7 * g3a^cR, (Qa/Qb)^d7 * Ra^cR), r7 = d7 + a3*cR; the second argument is fixed only when
		// Qa ≡ 0 (then it is 0) or Ra ≡ 1 and the prover follows the protocol; otherwise the proof is a guess
		r7 := big.NewInt(4343)
		second := modExpP(qaqb, r7)
		if new(big.Int).Mod(ra, p).Sign() == 0 {
			second = big.NewInt(0)
		}
		cr := c12Hash(v, 7, modExpP(g1, r7), second)
		d7 := subMod(r7, mul(b, cr), q)
		sendD(c12MkTLV(tlvTypeSMP3, nil, []*big.Int{pa, qa, cp, d5, d6, ra, cr, d7}))
		return fs, "degenerate SMP3: " + strings.Join(events, ",")
	}
	if strings.HasPrefix(at.Attack, "smp2-g2b-") {
		// the victim initiates; the attacker answers with g2b = g3b ≡ 0 (so that g2 = g3 = 0 and the victim's own Pa, Qa
		// are 0 whatever the secret is), Pb = Qb = 1, and finishes with Rb ≡ 0: every proof hash is H(i, 0[, 0])
		z := big.NewInt(0)
		if strings.Contains(at.Attack, "-p-") {
			z = new(big.Int).Set(p)
		}
		s := V.StartSMP("", []byte("the real secret"))
		if len(victimTLVs(s)) == 0 {
			return fs, "victim did not start"
		}
		zero := big.NewInt(0)
		five := big.NewInt(5)
		r2m := send(c12MkTLV(tlvTypeSMP2, nil, []*big.Int{z, c12Hash(v, 3, zero), five, z, c12Hash(v, 4, zero), five, one, one, c12Hash(v, 5, zero, zero), five, five}))
		got3 := false
		for _, t3 := range victimTLVs(r2m) {
			if t3.tlvType == tlvTypeSMP3 {
				got3 = true
			}
		}
		if !got3 {
			return fs, "rejected at SMP2: " + strings.Join(events, ",")
		}
		send(c12MkTLV(tlvTypeSMP4, nil, []*big.Int{z, c12Hash(v, 8, zero, zero), five}))
		return fs, "accepted SMP2 with zero generators: " + strings.Join(events, ",")
	}
	switch at.Attack {
	case "smp1-unit-elements-then-forged-smp3", "smp1-g2a-0", "smp1-g2a-p-1":
		// attacker initiates with g2a = g3a = X (degenerate), proofs recomputed
		x := one
		if at.Attack == "smp1-g2a-0" {
			x = big.NewInt(0)
		}
		if at.Attack == "smp1-g2a-p-1" {
			x = new(big.Int).Sub(p, one)
		}
		proof := func(ix byte) (c, dd *big.Int) {
			for k := int64(0); k < 64; k++ {
				dd = big.NewInt(1000 + k)
				// c = H(ix, g1^d * x^c): for x = 1 and 0 independent of c; for x = p-1 guess the parity of c
				for _, par := range []int64{0, 1} {
					xc := modExpP(x, big.NewInt(par))
					if x.Sign() == 0 {
						xc = big.NewInt(0) // 0^c = 0 for the (non-zero) hash value c
					}
					c = c12Hash(v, ix, mulMod(modExpP(g1, dd), xc, p))
					if x.Cmp(one) == 0 || x.Sign() == 0 || c.Bit(0) == uint(par) {
						return
					}
				}
			}
			return
		}
		c2, d2 := proof(1)
		c3, d3 := proof(2)
		r1 := send(c12MkTLV(tlvTypeSMP1, nil, []*big.Int{x, c2, d2, x, c3, d3}))
		asked := false
		for _, ev := range r1.Events {
			if ev.Kind == 'P' && SMPEvent(ev.Code) == SMPEventAskForSecret {
				asked = true
			}
		}
		if !asked {
			return fs, "rejected at SMP1: " + strings.Join(events, ",")
		}
		if at.Attack != "smp1-unit-elements-then-forged-smp3" {
			a := V.AnswerSMP([]byte("the real secret"))
			if a.Panic != "" {
				bad("panic:"+verifPanicClass(a.Panic), "%s", a.Panic)
				return fs, "panic on answer"
			}
			victimTLVs(a)
			// any SMP3 now reaches the verification code with whatever the degenerate elements produced
			seven := big.NewInt(7)
			cp3 := seven
			if x.Sign() == 0 {
				// with g2 = g3 = 0 both arguments of the SMP3 proof hash are 0 whatever Pa, Qa are
				cp3 = c12Hash(v, 6, big.NewInt(0), big.NewInt(0))
			}
			send(c12MkTLV(tlvTypeSMP3, nil, []*big.Int{seven, seven, cp3, one, one, seven, seven, seven}))
			return fs, "accepted degenerate SMP1: " + strings.Join(events, ",")
		}
		a := V.AnswerSMP([]byte("the real secret"))
		if a.Panic != "" {
			bad("panic:"+verifPanicClass(a.Panic), "%s", a.Panic)
			return fs, "panic"
		}
		ts := victimTLVs(a)
		if len(ts) == 0 {
			return fs, "no SMP2 from the victim"
		}
		_, m2, ok := c12Split(ts[len(ts)-1])
		if !ok || len(m2) < 11 {
			return fs, "no SMP2 from the victim"
		}
		qb := m2[7]
		// with g2 = g3 = 1: pb = 1 and qb = g1^r4 do not depend on the secret. Forge SMP3:
		pa, qa, ra := one, gd, one
		t := big.NewInt(424242)
		cp := c12Hash(v, 6, one, modExpP(g1, t))
		d5 := subMod(t, mul(d, cp), q)
		d6 := big.NewInt(5)
		qaqb := divMod(qa, qb, p)
		d7 := big.NewInt(777)
		cr := c12Hash(v, 7, modExpP(g1, d7), modExpP(qaqb, d7))
		send(c12MkTLV(tlvTypeSMP3, nil, []*big.Int{pa, qa, cp, d5, d6, ra, cr, d7}))
	case "smp2-unit-elements-then-forged-smp4", "smp2-pb1-qb0":
		// the victim initiates; the attacker answers
		s := V.StartSMP("", []byte("the real secret"))
		ts := victimTLVs(s)
		if len(ts) == 0 {
			return fs, "victim did not start"
		}
		proof := func(ix byte) (*big.Int, *big.Int) {
			dd := big.NewInt(31337)
			return c12Hash(v, ix, modExpP(g1, dd)), dd // g2b = 1: c = H(ix, g1^d)
		}
		c2, d2 := proof(3)
		c3, d3 := proof(4)
		pb, qb := one, gd
		t := big.NewInt(99999)
		cp := c12Hash(v, 5, one, modExpP(g1, t)) // g2 = g3 = 1, pb = 1: H(5, 1, g1^d5 * qb^cp)
		d5 := subMod(t, mul(d, cp), q)
		d6 := big.NewInt(6)
		if at.Attack == "smp2-pb1-qb0" {
			// honest g2b, g3b (exponent 1) but pb = 1, qb = 0: cp = H(5, g3^d5, 0)
			g3 := ts[0] // placeholder, replaced below
			_ = g3
			_, m1, ok := c12Split(ts[len(ts)-1])
			if !ok || len(m1) < 6 {
				return fs, "no SMP1 from the victim"
			}
			g3a := m1[3]
			b := big.NewInt(1)
			g2b, g3b := modExpP(g1, b), modExpP(g1, b)
			r2, r3 := big.NewInt(11), big.NewInt(12)
			c2 = c12Hash(v, 3, modExpP(g1, r2))
			d2 = subMod(r2, mul(b, c2), q)
			c3 = c12Hash(v, 4, modExpP(g1, r3))
			d3 = subMod(r3, mul(b, c3), q)
			g3v := modExpP(g3a, b)
			d5 = big.NewInt(55)
			cp = c12Hash(v, 5, modExpP(g3v, d5), big.NewInt(0))
			r2m := send(c12MkTLV(tlvTypeSMP2, nil, []*big.Int{g2b, c2, d2, g3b, c3, d3, one, big.NewInt(0), cp, d5, d6}))
			_ = r2m
			return fs, "smp2 pb=1 qb=0: " + strings.Join(events, ",")
		}
		r2m := send(c12MkTLV(tlvTypeSMP2, nil, []*big.Int{one, c2, d2, one, c3, d3, pb, qb, cp, d5, d6}))
		ts3 := victimTLVs(r2m)
		var m3 []*big.Int
		for _, t3 := range ts3 {
			if t3.tlvType == tlvTypeSMP3 {
				_, m3, _ = c12Split(t3)
			}
		}
		if len(m3) < 8 {
			return fs, "rejected at SMP2: " + strings.Join(events, ",")
		}
		qa := m3[1]
		qaqb := divMod(qa, qb, p)
		d7 := big.NewInt(888)
		cr := c12Hash(v, 8, modExpP(g1, d7), modExpP(qaqb, d7)) // g3b = 1, rb = 1
		send(c12MkTLV(tlvTypeSMP4, nil, []*big.Int{one, cr, d7}))
	}
	return fs, strings.Join(events, ",")
}

// ---------------------------------------------------------------------------
// sequencing: foreign SMP messages and user calls in every order

type monC12 struct {
	Msgs, Calls int
	Asked       bool
	Ended       bool
}

func verifC12Sys(id string, seed int64) *verifSys {
	var v, nm, nc int
	if _, err := fmt.Sscanf(id, "v%d/M%d/C%d", &v, &nm, &nc); err != nil {
		return nil
	}
	sys := &verifSys{Prop: "C12", ID: id, Seed: seed}
	var foreign []tlv
	var once sync.Once
	sys.Init = func() *verifWorld {
		once.Do(func() {
			// SMP messages of another, complete honest run (other session): well-formed, never valid here
			for _, st := range c12States(seed+1000, v) {
				if strings.HasSuffix(st.Name, "-q") || len(st.Next) == 0 {
					continue
				}
				foreign = append(foreign, st.Next...)
			}
			foreign = append(foreign, tlv{tlvType: tlvTypeSMPAbort})
		})
		w := verifEstablished(seed, v, 0)
		w.P[0].Rec.take()
		w.P[1].Rec.take()
		w.Mon = &monC12{Msgs: nm, Calls: nc}
		return w
	}
	sys.Evs = func(w *verifWorld) []verifEv {
		m := w.Mon.(*monC12)
		var evs []verifEv
		if m.Msgs > 0 && !m.Ended {
			for i := range foreign {
				evs = append(evs, verifEv{K: "peer-sends", I: i, S: fmt.Sprintf("tlv%d", foreign[i].tlvType)})
			}
		}
		if m.Calls > 0 {
			evs = append(evs, verifEv{K: "start"}, verifEv{K: "answer"}, verifEv{K: "abort"}, verifEv{K: "start-refused"})
			if !m.Ended {
				evs = append(evs, verifEv{K: "end"})
			}
		}
		return evs
	}
	sys.Apply = func(w *verifWorld, e verifEv) []verifFinding {
		m := w.Mon.(*monC12)
		V := w.P[1]
		var r verifResult
		switch e.K {
		case "peer-sends":
			m.Msgs--
			msg := c12Wrap(w.P[0], []tlv{foreign[e.I]})
			_, _, _ = w.P[0].C.createSerializedDataMessage(nil, messageFlagIgnoreUnreadable, []tlv{foreign[e.I]})
			r = V.Receive(msg)
		case "start":
			m.Calls--
			r = V.StartSMP("", []byte("x"))
			if r.Err == "" && r.Panic == "" && !m.Ended && V.C.IsEncrypted() {
				// whatever state the call was made in, it starts an honest run: the peer answers with the same
				// secret and nothing else interferes, so both must report success
				w.push(1, r.Out)
				succ := [2]int{}
				var evs [2][]string
				for step := 0; step < 20; step++ {
					moved := false
					for to := 0; to < 2; to++ {
						if len(w.Q[to]) == 0 {
							continue
						}
						moved = true
						rr := w.P[to].Receive(w.pop(to))
						out := rr.Out
						all := rr.Events
						for _, ev := range rr.Events {
							if ev.Kind == 'P' && to == 0 && (SMPEvent(ev.Code) == SMPEventAskForSecret || SMPEvent(ev.Code) == SMPEventAskForAnswer) {
								a := w.P[0].AnswerSMP([]byte("x"))
								out = append(out, a.Out...)
								all = append(all, a.Events...)
							}
						}
						for _, ev := range all {
							if ev.Kind == 'P' {
								evs[to] = append(evs[to], SMPEvent(ev.Code).String())
								if SMPEvent(ev.Code) == SMPEventSuccess {
									succ[to]++
								}
							}
						}
						w.push(to, out)
					}
					if !moved {
						break
					}
				}
				if succ[0] != 1 || succ[1] != 1 {
					return []verifFinding{{"C12:honest-run-after-unexpected-start-fails", fmt.Sprintf("StartAuthenticate (victim in some SMP state after %d foreign message(s)) began a run that the peer answered with the same secret; events peer=%v victim=%v", nm-m.Msgs, evs[0], evs[1])}}
				}
				return nil
			}
		case "start-refused":
			// a call the library turns down (question too long for a TLV) must leave the state machine where it was
			m.Calls--
			V.C.smp.ensureSMP()
			before := fmt.Sprintf("%T", V.C.smp.state)
			r = V.StartSMP(strings.Repeat("q", 70000), []byte("x"))
			if after := fmt.Sprintf("%T", V.C.smp.state); r.Err != "" && len(r.Out) == 0 && after != before {
				return []verifFinding{{"C12:refused-call-moved-the-state-machine", fmt.Sprintf("StartAuthenticate was refused (%s) and sent nothing, but moved the SMP state from %s to %s", r.Err, before, after)}}
			}
		case "answer":
			m.Calls--
			r = V.AnswerSMP([]byte("x"))
		case "abort":
			m.Calls--
			r = V.AbortSMP()
		case "end":
			m.Calls--
			m.Ended = true
			r = V.End()
		}
		var fs []verifFinding
		if r.Panic != "" {
			fs = append(fs, verifFinding{"C12:panic:" + verifPanicClass(r.Panic), fmt.Sprintf("%s: %s", e, r.Panic)})
		}
		for _, ev := range r.Events {
			if ev.Kind == 'P' && SMPEvent(ev.Code) == SMPEventSuccess {
				fs = append(fs, verifFinding{"C12:success-on-foreign-messages", "the victim reports success although every SMP message came from another run"})
			}
		}
		peerAbort := e.K == "peer-sends" && foreign[e.I].tlvType == tlvTypeSMPAbort
		// what the victim sends goes to the real peer, whose answers come back
		w.push(1, r.Out)
		w.deliverAll(10, func(to int, _ []byte, rr verifResult) {
			if rr.Panic != "" {
				fs = append(fs, verifFinding{"C12:panic:" + verifPanicClass(rr.Panic), rr.Panic})
			}
			for _, ev := range rr.Events {
				if ev.Kind == 'P' && SMPEvent(ev.Code) == SMPEventSuccess {
					fs = append(fs, verifFinding{"C12:success-on-foreign-messages", w.P[to].Name + " reports success"})
				}
			}
		})
		if (peerAbort || e.K == "abort") && !m.Ended && r.Panic == "" && V.C.IsEncrypted() && w.P[0].C.IsEncrypted() {
			// an abort, whoever sent it, ends whatever run was under way on both sides: a run the peer starts next (the
			// victim makes no call of its own other than giving the secret when asked) must succeed
			w2 := w.clone()
			w2.P[0].Rec.take()
			w2.P[1].Rec.take()
			if why := c12RunFrom(w2, 0); why != "" {
				fs = append(fs, verifFinding{"C12:no-recovery:after-abort", fmt.Sprintf("after %s, a run started by the peer and answered with the same secret does not succeed: %s", e, why)})
			}
		}
		return fs
	}
	sys.Final = func(w *verifWorld) []verifFinding {
		m := w.Mon.(*monC12)
		if m.Ended {
			return nil
		}
		if s := c12Recover(w, 1); s != "" {
			return []verifFinding{{"C12:no-recovery:sequence", s}}
		}
		return nil
	}
	sys.Label = func(w *verifWorld) string {
		c := w.P[1].C
		s := "nil"
		if c.smp.state != nil {
			s = c.smp.state.identityString()
		}
		return s + "/" + verifMsgStateName(c)
	}
	return sys
}

func init() {
	verifChecks["C12"] = &verifCheck{
		Level: "model_checking",
		Build: verifC12Sys,
		ReplayCase: func(cj string, seed int64) []verifFinding {
			var at c12Attack
			if jsonUnmarshal(cj, &at) == nil && at.Attack != "" {
				fs, _ := c12RunAttack(at, seed)
				return fs
			}
			var c c12Case
			if jsonUnmarshal(cj, &c) != nil {
				return nil
			}
			x := &c12Runner{recovered: map[[16]byte]string{}}
			for _, v := range []int{2, 3} {
				sts := c12States(seed, v)
				for _, st := range sts {
					if st.Name != c.State {
						continue
					}
					for _, d := range c12Deviations(st, c12WithForeign(sts, seed, v)) {
						if d.Desc == c.Desc {
							return x.eval(st, d)
						}
					}
				}
			}
			return nil
		},
		Run: func(r *verifReport) {
			r.Rule = "victim in every SMP state in both roles (expect1 with/without question, waiting for the secret, expect2, expect3, expect4, never ran SMP), v2 and v3; deviations delivered correctly authenticated through a clone of its peer: every MPI field of the genuine next message replaced by {0,1,2,p-2,p-1,p,p+1,q,q±1,honest±1,honest+p,2^2000}, MPI counts n-1,n+1,0,2^31,2^32-1, dropped/extra MPI, length prefixes beyond the TLV, truncations, question variants, duplicates, aborts before/after, and every message that is genuine for another state (out of sequence); a malicious prover who recomputes the proofs over degenerate elements (unit elements with forged SMP3 / SMP4, g2a=0, g2a=p-1, and every combination of Pb, Qb in SMP2 and of Pa, Qa, Ra in SMP3 taken from {0, p, 2p, 1}); and an explicit-state exploration of all sequences of ≤ 2-3 foreign SMP messages and user calls (start, a start the library refuses, answer, abort, End). Oracle: no panic, never success, and afterwards (abort, then a fresh honest run with equal secrets initiated by either side) success on both sides"
			r.Assumptions = []string{"authenticated payloads are produced with the honest peer's session keys (the attacker is the authenticated peer itself)", "recovery is probed once per distinct world state"}
			x := &c12Runner{recovered: map[[16]byte]string{}}
			type job struct {
				st c12State
				d  c12Dev
			}
			jobs := make(chan job, 128)
			var mu sync.Mutex
			var wg sync.WaitGroup
			classes := map[string]int64{}
			for k := 0; k < runtime.NumCPU(); k++ {
				wg.Add(1)
				go func() {
					defer wg.Done()
					for j := range jobs {
						fs := x.eval(j.st, j.d)
						mu.Lock()
						r.Evals++
						r.Nontrivial++
						r.Transitions++
						classes[j.d.Class]++
						for _, f := range fs {
							r.addCase("C12", f.Sig, f.Detail, c12Case{j.st.Name, j.d.Desc})
						}
						mu.Unlock()
					}
				}()
			}
			n := 0
			for _, v := range []int{3, 2} {
				sts := c12States(r.Seed, v)
				all := c12WithForeign(sts, r.Seed, v)
				for _, st := range sts {
					n++
					for _, d := range c12Deviations(st, all) {
						if r.Tier == "quick" && strings.HasPrefix(d.Class, "field") && !(strings.HasSuffix(d.Desc, "= 0") || strings.HasSuffix(d.Desc, "= 1") || strings.HasSuffix(d.Desc, "= p-1") || strings.HasSuffix(d.Desc, "= p") || strings.HasSuffix(d.Desc, "= honest+1") || strings.HasSuffix(d.Desc, "= honest+p")) {
							continue
						}
						jobs <- job{st, d}
					}
				}
			}
			close(jobs)
			wg.Wait()
			r.Extra["deviation_classes"] = classes
			r.Extra["distinct_states_probed_for_recovery"] = len(x.recovered)
			r.sample(map[string]string{"state": "v3/expect2", "deviation": "SMP-TLV-3 field 7 = 0"})
			for _, v := range []int{3, 2} {
				for _, a := range c12Attacks {
					at := c12Attack{v, a}
					fs, oc := c12RunAttack(at, r.Seed)
					r.Evals++
					r.Nontrivial++
					r.Outcomes[fmt.Sprintf("malicious prover v%d %s: %s", v, a, oc)]++
					for _, f := range fs {
						r.addCase("C12", f.Sig, f.Detail, at)
					}
				}
			}
			r.sample(map[string]interface{}{"malicious_prover": c12Attack{2, "smp1-unit-elements-then-forged-smp3"}})
			ids := []string{"v3/M2/C1", "v2/M2/C1", "v3/M1/C2"}
			if r.Tier == "thorough" {
				ids = []string{"v3/M3/C1", "v2/M3/C1", "v3/M2/C2", "v2/M2/C2", "v3/M1/C3"}
			}
			for _, id := range ids {
				r.explore(verifC12Sys(id, r.Seed))
			}
			r.States += int64(n)
		},
	}
}

// c12RunFrom: principal ini starts an honest run, the other side answers with the same secret when asked, nothing
// interferes; "" if both report success exactly once
func c12RunFrom(w *verifWorld, ini int) string {
	s := w.P[ini].StartSMP("", []byte("x"))
	if s.Err != "" || s.Panic != "" {
		return "StartAuthenticate fails: " + s.Err + s.Panic
	}
	w.push(ini, s.Out)
	succ := [2]int{}
	var evs [2][]string
	for _, ev := range s.Events {
		if ev.Kind == 'P' {
			evs[ini] = append(evs[ini], SMPEvent(ev.Code).String())
		}
	}
	for step := 0; step < 20; step++ {
		moved := false
		for to := 0; to < 2; to++ {
			if len(w.Q[to]) == 0 {
				continue
			}
			moved = true
			rr := w.P[to].Receive(w.pop(to))
			if rr.Panic != "" {
				return rr.Panic
			}
			out := rr.Out
			all := rr.Events
			for _, ev := range rr.Events {
				if ev.Kind == 'P' && to != ini && (SMPEvent(ev.Code) == SMPEventAskForSecret || SMPEvent(ev.Code) == SMPEventAskForAnswer) {
					a := w.P[to].AnswerSMP([]byte("x"))
					out = append(out, a.Out...)
					all = append(all, a.Events...)
				}
			}
			for _, ev := range all {
				if ev.Kind == 'P' {
					evs[to] = append(evs[to], SMPEvent(ev.Code).String())
					if SMPEvent(ev.Code) == SMPEventSuccess {
						succ[to]++
					}
				}
			}
			w.push(to, out)
		}
		if !moved {
			break
		}
	}
	if succ[0] != 1 || succ[1] != 1 {
		return fmt.Sprintf("events %s=%v %s=%v", w.P[0].Name, evs[0], w.P[1].Name, evs[1])
	}
	return ""
}
