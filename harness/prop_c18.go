//go:build verif

package otr3

import (
	"bytes"
	"fmt"
	"strings"
)

// C18 — session lifecycle, security events and retransmission discipline.

type monC18 struct {
	U        int    // remaining user/environment events (everything except deliveries)
	NSend    [2]int // remaining sends per side
	NEnd     [2]int
	NQuery   [2]int
	NErr     [2]int
	NTick    int
	Fin      [2]bool     // model: finished (peer's disconnect accepted, End() not yet called)
	Queued   [2][][]byte // texts accepted while plaintext under required encryption, not yet released
	LastSent [2]int      // marker index of the most recent text accepted by Send in an encrypted session (-1 none)
	ErrSince [2]bool     // the peer reported an error since LastSent was sent
	Markers  [][]byte
	Owner    []int
	NPlain   []int     // per marker: number of data messages / plaintext messages that carried it unmarked
	NResent  []int     // per marker: number of data messages that carried it with the resent prefix
	Refused  []int     // markers that Send turned down (finished state): they must never reach the wire
	Disc     [][]byte  // disconnect messages put on the wire
	DiscSSID [][8]byte // session they belong to
	Steps    int
	Sess     [2][8]byte // SSID of the session each side is in, captured when its exchange completed
}

func verifIsWS(b []byte) bool {
	for _, c := range b {
		if c != ' ' && c != '\t' {
			return false
		}
	}
	return true
}

// id: "<polA>-<polB>/<start>/U<n>"
func verifC18Sys(id string, seed int64) *verifSys {
	parts := strings.Split(id, "/")
	if len(parts) != 3 {
		return nil
	}
	pp := strings.Split(parts[0], "-")
	var u int
	if _, err := fmt.Sscanf(parts[2], "U%d", &u); err != nil || len(pp) != 2 {
		return nil
	}
	start := parts[1]
	sys := &verifSys{Prop: "C18", ID: id, Seed: seed}

	newMarker := func(m *monC18, who int) (int, []byte) {
		k := len(m.Markers)
		t := []byte(fmt.Sprintf("MARK%c%02d-%s", 'A'+who, k, strings.Repeat("x", k%3)))
		m.Markers = append(m.Markers, t)
		m.Owner = append(m.Owner, who)
		m.NPlain = append(m.NPlain, 0)
		m.NResent = append(m.NResent, 0)
		return k, t
	}
	findMarker := func(m *monC18, b []byte) int {
		for k, t := range m.Markers {
			if bytes.Equal(t, b) {
				return k
			}
		}
		return -1
	}

	// ledger: account for everything principal i just put on the wire
	ledger := func(w *verifWorld, i int, out [][]byte, wentSecure bool) []verifFinding {
		m := w.Mon.(*monC18)
		var fs []verifFinding
		var released [][]byte
		// what one call emits reaches the peer in this order: the message that completes the key exchange must come
		// before the data messages of the session it opens, or the peer cannot read them
		firstData, lastAKE := -1, -1
		for k, o := range out {
			switch guessMessageType(o) {
			case msgGuessData:
				if firstData < 0 {
					firstData = k
				}
			case msgGuessSignature, msgGuessRevealSig, msgGuessDHKey, msgGuessDHCommit:
				lastAKE = k
			}
		}
		if wentSecure && firstData >= 0 && lastAKE > firstData {
			fs = append(fs, verifFinding{"C18:data-before-key-exchange-reply", fmt.Sprintf("%s went secure and emitted a data message (position %d) before the key-exchange message (position %d) that lets the peer read it", w.P[i].Name, firstData, lastAKE)})
		}
		for _, o := range out {
			if guessMessageType(o) != msgGuessData {
				continue
			}
			info := verifOpenOwn(w.P[i].C, o)
			if verifTraceOn {
				fmt.Printf("   ledger: data message by %s opened=%v plain=%q refused=%v\n", w.P[i].Name, info.OK, verifTrunc(info.Plain), m.Refused)
			}
			if !info.OK {
				verifCount("c18_data_messages_not_opened", 1)
				continue
			}
			verifCount("c18_data_messages_opened", 1)
			if len(info.Plain) == 0 {
				continue
			}
			if k := findMarker(m, info.Plain); k >= 0 {
				m.NPlain[k]++
				released = append(released, info.Plain)
				for _, rk := range m.Refused {
					if rk == k {
						fs = append(fs, verifFinding{"C18:refused-text-transmitted", fmt.Sprintf("text %q, which Send refused (peer had ended the session), was put on the wire later by %s", info.Plain, w.P[i].Name)})
					}
				}
				if m.NPlain[k] > 1 {
					fs = append(fs, verifFinding{"C18:transmitted-twice", fmt.Sprintf("text %q was put on the wire %d times (by %s)", info.Plain, m.NPlain[k], w.P[i].Name)})
				}
				continue
			}
			if bytes.HasPrefix(info.Plain, verifResentPrefix) {
				rest := info.Plain[len(verifResentPrefix):]
				k := findMarker(m, rest)
				switch {
				case k < 0:
					fs = append(fs, verifFinding{"C18:resent-unsent", fmt.Sprintf("%s resent %q, which was never passed to Send", w.P[i].Name, info.Plain)})
				case k != m.LastSent[i]:
					fs = append(fs, verifFinding{"C18:resent-not-most-recent", fmt.Sprintf("%s resent %q although the most recent message is #%d", w.P[i].Name, info.Plain, m.LastSent[i])})
				case !m.ErrSince[i]:
					fs = append(fs, verifFinding{"C18:resent-without-error-report", fmt.Sprintf("%s resent %q without an error report from the peer", w.P[i].Name, info.Plain)})
				default:
					m.NResent[k]++
					if m.NResent[k] > 1 {
						fs = append(fs, verifFinding{"C18:resent-twice", fmt.Sprintf("%q resent %d times", info.Plain, m.NResent[k])})
					}
				}
				continue
			}
			fs = append(fs, verifFinding{"C18:unknown-plaintext-on-wire", fmt.Sprintf("%s emitted a data message carrying %q", w.P[i].Name, verifTrunc(info.Plain))})
		}
		// a resend round consumes the error report
		for _, o := range out {
			if guessMessageType(o) == msgGuessData {
				if info := verifOpenOwn(w.P[i].C, o); info.OK && bytes.HasPrefix(info.Plain, verifResentPrefix) {
					m.ErrSince[i] = false
				}
			}
		}
		if wentSecure && len(m.Queued[i]) > 0 {
			ok := len(released) >= len(m.Queued[i])
			for k := 0; ok && k < len(m.Queued[i]); k++ {
				ok = bytes.Equal(released[k], m.Queued[i][k])
			}
			if !ok {
				fs = append(fs, verifFinding{"C18:queued-not-released", fmt.Sprintf("%s went secure with %d queued text(s) but released %d in that step (or out of order)", w.P[i].Name, len(m.Queued[i]), len(released))})
			}
			m.Queued[i] = nil
		}
		return fs
	}

	sys.Init = func() *verifWorld {
		pa, pb := verifParsePol(pp[0]), verifParsePol(pp[1])
		w := verifNewPair(verifPairCfg{Seed: seed, PolA: pa, PolB: pb})
		m := &monC18{U: u, NSend: [2]int{2, 2}, NEnd: [2]int{1, 1}, NQuery: [2]int{1, 1}, NErr: [2]int{1, 1}, NTick: 1, LastSent: [2]int{-1, -1}}
		w.Mon = m
		if strings.HasPrefix(start, "est") || strings.HasPrefix(start, "lost") {
			n := 0
			if strings.HasPrefix(start, "est") {
				fmt.Sscanf(start, "est%d", &n)
			} else {
				fmt.Sscanf(start, "lost%d", &n)
			}
			w.Q[1] = append(w.Q[1], w.P[0].Query())
			if !w.deliverAll(40, nil) || !w.P[0].C.IsEncrypted() || !w.P[1].C.IsEncrypted() {
				panic("verif: C18 setup failed for " + id)
			}
			// n texts each way, delivered (history before the explored part)
			for k := 0; k < n; k++ {
				for i := 0; i < 2; i++ {
					mk, t := newMarker(m, i)
					r := w.P[i].Send(t)
					m.NPlain[mk]++
					m.LastSent[i] = mk
					w.push(i, r.Out)
					w.deliverAll(10, nil)
				}
			}
			if strings.HasPrefix(start, "lost") {
				// "restart by the peer": B's client comes back with its long-term key and instance tag and nothing
				// else, while A still holds the session
				old := w.P[1]
				w.P[1] = verifNewPrincipal(verifConvCfg{Name: "B", Seed: seed + 500, Policies: old.C.Policies, Key: verifKey(seed, "B")})
				w.P[1].C.ourInstanceTag = old.C.ourInstanceTag
				m.LastSent[1] = -1
			}
			w.P[0].Rec.take()
			w.P[1].Rec.take()
			m.Sess[0], m.Sess[1] = w.P[0].C.ssid, w.P[1].C.ssid
		}
		return w
	}
	sys.Evs = func(w *verifWorld) []verifEv {
		m := w.Mon.(*monC18)
		var evs []verifEv
		for i := 0; i < 2; i++ {
			if len(w.Q[i]) > 0 {
				evs = append(evs, verifEv{K: "deliver", I: i})
			}
		}
		if m.U <= 0 {
			return evs
		}
		for i := 0; i < 2; i++ {
			if m.NSend[i] > 0 {
				evs = append(evs, verifEv{K: "send", I: i})
			}
			if m.NEnd[i] > 0 {
				evs = append(evs, verifEv{K: "end", I: i})
			}
			if m.NQuery[i] > 0 {
				evs = append(evs, verifEv{K: "query", I: i})
			}
			if m.NErr[i] > 0 {
				evs = append(evs, verifEv{K: "err", I: i})
			}
		}
		if m.NTick > 0 {
			evs = append(evs, verifEv{K: "tick"})
		}
		return evs
	}
	sys.Apply = func(w *verifWorld, e verifEv) []verifFinding {
		m := w.Mon.(*monC18)
		m.Steps++
		p := w.P[e.I]
		c := p.C
		var fs []verifFinding
		add := func(sig, format string, a ...interface{}) {
			fs = append(fs, verifFinding{"C18:" + sig, fmt.Sprintf(format, a...) + " [" + id + "]"})
		}
		before := c.IsEncrypted()
		authBefore := verifAuthStateName(c)
		var r verifResult
		var inType messageTypeGuess = -1
		discFor := -1
		switch e.K {
		case "tick":
			m.U--
			m.NTick--
			verifTick(w.P[0].C)
			verifTick(w.P[1].C)
			return nil
		case "query":
			m.U--
			m.NQuery[e.I]--
			w.Q[1-e.I] = append(w.Q[1-e.I], p.Query())
			return nil
		case "err":
			m.U--
			m.NErr[e.I]--
			w.Q[e.I] = append(w.Q[e.I], []byte("?OTR Error: injected report"))
			return nil
		case "end":
			m.U--
			m.NEnd[e.I]--
			r = p.End()
			if r.Err != "" {
				add("end-error", "End failed: %s", r.Err)
			}
			if before {
				nd := 0
				for _, o := range r.Out {
					if guessMessageType(o) == msgGuessData {
						nd++
						m.Disc = append(m.Disc, o)
						m.DiscSSID = append(m.DiscSSID, m.Sess[e.I])
					}
				}
				if nd != 1 {
					add("end-no-disconnect", "End() of an encrypted session emitted %d data messages", nd)
				}
			} else if len(r.Out) > 0 {
				add("end-output-when-not-encrypted", "End() outside a session emitted %d message(s)", len(r.Out))
			}
			if c.IsEncrypted() {
				add("encrypted-after-end", "still encrypted after End()")
			}
			m.Fin[e.I] = false
		case "send":
			m.U--
			m.NSend[e.I]--
			mk, t := newMarker(m, e.I)
			r = p.Send(t)
			switch {
			case m.Fin[e.I]:
				if r.Err == "" {
					add("send-accepted-when-finished", "Send succeeded although the peer ended the session and End() was not called")
				} else {
					m.Refused = append(m.Refused, mk)
				}
				for _, o := range r.Out {
					if !bytes.HasPrefix(o, errorMarker) {
						add("send-output-when-finished", "Send in finished state emitted %q", verifTrunc(o))
					}
				}
			case before:
				m.LastSent[e.I] = mk
				m.ErrSince[e.I] = false
				if r.Err != "" {
					add("send-error-encrypted", "Send failed in an encrypted session: %s", r.Err)
				}
				for _, o := range r.Out {
					if bytes.Contains(o, t) {
						add("cleartext-while-encrypted", "marker in the clear")
					}
				}
			default: // plaintext
				if cfgPol := verifParsePol(pp[e.I]); cfgPol.has(requireEncryption) { // as configured by the application
					m.Queued[e.I] = append(m.Queued[e.I], t)
					for _, o := range r.Out {
						if bytes.Contains(o, t) {
							add("cleartext-under-required-encryption", "marker in the clear although policy requires encryption")
						}
					}
				} else {
					if len(r.Out) != 1 || !bytes.HasPrefix(r.Out[0], t) || !verifIsWS(r.Out[0][len(t):]) {
						add("plaintext-send-altered", "plaintext Send produced %d message(s), first %q", len(r.Out), verifTrunc(verifFirst(r.Out)))
					} else {
						m.NPlain[mk]++
					}
				}
			}
		case "deliver":
			msg := w.pop(e.I)
			inType = guessMessageType(msg)
			for k, d := range m.Disc {
				if bytes.Equal(d, msg) {
					discFor = k
				}
			}
			if inType == msgGuessError && before {
				m.ErrSince[e.I] = true
			}
			r = p.Receive(msg)
		}
		if r.Panic != "" {
			add("panic:"+verifPanicClass(r.Panic), "%s", r.Panic)
		}
		after := c.IsEncrypted()
		nGS, nGI, nSS := 0, 0, 0
		for _, ev := range r.Events {
			if ev.Kind == 'S' {
				switch SecurityEvent(ev.Code) {
				case GoneSecure:
					nGS++
				case GoneInsecure:
					nGI++
				case StillSecure:
					nSS++
				}
			}
		}
		isAKEEnd := inType == msgGuessRevealSig || inType == msgGuessSignature
		// an exchange completed in this call: the responder answers with a Signature message; the
		// initiator leaves AWAITING_SIG on a Signature message
		completed := false
		if inType == msgGuessRevealSig {
			for _, o := range r.Out {
				if guessMessageType(o) == msgGuessSignature {
					completed = true
				}
			}
		}
		if inType == msgGuessSignature && authBefore == "AWAITING_SIG" && verifAuthStateName(c) != "AWAITING_SIG" && r.Err == "" {
			completed = true
		}
		switch {
		case !before && after:
			if !isAKEEnd || !completed {
				add("encrypted-without-completed-exchange", "%s became encrypted in %s (input type %d)", p.Name, e, inType)
			}
			if nGS != 1 || nGI != 0 || nSS != 0 {
				add("events-on-going-secure", "going secure raised GoneSecure×%d GoneInsecure×%d StillSecure×%d", nGS, nGI, nSS)
			}
		case before && !after:
			if !(e.K == "end" || inType == msgGuessData) {
				add("left-encrypted-state-unexpectedly", "%s left the encrypted state in %s (input type %d)", p.Name, e, inType)
			}
			if nGI != 1 || nGS != 0 || nSS != 0 {
				add("events-on-going-insecure", "leaving the encrypted state raised GoneSecure×%d GoneInsecure×%d StillSecure×%d", nGS, nGI, nSS)
			}
		case before && after:
			wantSS := 0
			if completed {
				wantSS = 1
			}
			if nSS != wantSS || nGS != 0 || nGI != 0 {
				add("events-while-encrypted", "encrypted before and after %s (exchange completed=%v): GoneSecure×%d GoneInsecure×%d StillSecure×%d", e, completed, nGS, nGI, nSS)
			}
		default:
			if completed {
				add("exchange-completed-but-not-encrypted", "%s completed an exchange but is not encrypted", p.Name)
			}
			if nGS+nGI+nSS != 0 {
				add("events-while-not-encrypted", "not encrypted before and after %s: GoneSecure×%d GoneInsecure×%d StillSecure×%d", e, nGS, nGI, nSS)
			}
		}
		if completed {
			m.Sess[e.I] = c.ssid
		}
		if discFor >= 0 && before && m.Sess[e.I] == m.DiscSSID[discFor] {
			if after {
				add("disconnect-ignored", "%s stayed encrypted after the peer's disconnect of this session", p.Name)
			} else {
				m.Fin[e.I] = true
			}
		}
		if m.Fin[e.I] && after {
			m.Fin[e.I] = false // a new exchange completed: legitimately encrypted again
		}
		fs = append(fs, ledger(w, e.I, r.Out, !before && after)...)
		w.push(e.I, r.Out)
		return fs
	}
	sys.Label = func(w *verifWorld) string {
		m := w.Mon.(*monC18)
		tot, res := 0, 0
		for k := range m.NPlain {
			tot += m.NPlain[k]
			res += m.NResent[k]
		}
		return fmt.Sprintf("A=%s B=%s fin=%v/%v tx=%d resent=%d queued=%d/%d", verifMsgStateName(w.P[0].C), verifMsgStateName(w.P[1].C), m.Fin[0], m.Fin[1], tot, res, len(m.Queued[0]), len(m.Queued[1]))
	}
	return sys
}

func verifFirst(o [][]byte) []byte {
	if len(o) == 0 {
		return nil
	}
	return o[0]
}

func init() {
	verifChecks["C18"] = &verifCheck{
		Level: "model_checking",
		Build: verifC18Sys,
		Run: func(r *verifReport) {
			r.Rule = "all sequences of lifecycle operations of both sides (query, Send(marker), End, injected peer error report, clock tick) within a budget U of user/environment events, interleaved with every FIFO delivery order, from plaintext, from established sessions with history, and from the situation after a restart of the peer's client (it has lost the session, we still hold it); lock-step reference: legal IsEncrypted transitions and their triggers, exact security events per transition, finished-state refusal, disconnect handling, and a transmission ledger obtained by opening every emitted data message with the sender's keys"
			r.Assumptions = []string{"no fragmentation in this exploration", "the ledger opens data messages with package-internal key material of the sender (not an independent implementation)"}
			var ids []string
			if r.Tier == "quick" {
				for _, pol := range []string{"3-3", "3r-3", "3e-3e", "3rws-3ws", "3re-3re"} {
					ids = append(ids, pol+"/plain/U3")
				}
				ids = append(ids, "3-3/est1/U3", "3e-3e/est2/U3", "3r-3r/est1/U3", "3e-3e/lost1/U3")
			} else {
				// sized to complete within the 25-minute budget (≈ 2 M states): sessions with history and OTRv2 first
				ids = append(ids, "3-3/est1/U4", "3e-3e/est2/U4", "3r-3r/est1/U4", "3re-3re/est3/U4", "2e-2e/est2/U4", "2r-2/plain/U4", "3e-3e/lost1/U4", "3r-3/lost1/U4", "2e-2/lost1/U4", "3rews-3rews/plain/U4")
				for _, pa := range []string{"3", "3r", "3e", "3ws"} {
					for _, pb := range []string{"3", "3r", "3e", "3rews"} {
						ids = append(ids, pa+"-"+pb+"/plain/U4")
					}
				}
			}
			for _, id := range ids {
				r.explore(verifC18Sys(id, r.Seed))
			}
		},
	}
}
