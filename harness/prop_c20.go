//go:build verif

package otr3

import (
	cryptorand "crypto/rand"
	"runtime"
	"sort"
	"bytes"
	"crypto/sha256"
	"fmt"
	"io"
	"os"
	"os/exec"
	"path/filepath"
	"reflect"
	"strings"
	"sync"
)

// C20 — independent conversations do not interfere, also when run concurrently.
// Conversations can only meet in package-level state (the package starts no goroutines).
// (1) exhaustive exploration of all interleavings, at API-call granularity, of independent scripted
//     conversation pairs; after every step every package-level variable is compared bit for bit
//     (deep, slices to full capacity) with its value after init, and every step's observable result
//     with the result of the same step when the script runs alone;
// (2) the same scripts run free on real goroutines under the race detector (corroboration by sampling).

// c20PkgHash: deep content of every package-level variable (generated list), spare capacity included
func c20PkgHash() (total [32]byte, per map[string][32]byte) {
	per = map[string][32]byte{}
	all := sha256.New()
	for _, v := range verifPkgVars {
		h := sha256.New()
		func() {
			defer func() {
				if r := recover(); r != nil {
					fmt.Fprintf(h, "unwalkable:%v", r)
					c20Unwalkable.Store(v.Name, fmt.Sprint(r))
				}
			}()
			rv := reflect.ValueOf(v.Ptr).Elem()
			switch rv.Type().String() {
			case "io.Writer", "reflect.Type", "sync.Once":
				return // standard error sink, type descriptors, synchronised lazy initialisation
			}
			verifVisit(v.Ptr, &verifVisitor{
				onBytes: func(path string, b []byte) {
					fmt.Fprintf(h, "%s:%d:", path, len(b))
					h.Write(b)
				},
				onSize: func(path string, n uintptr) { fmt.Fprintf(h, "%s#%d;", path, n) },
			})
			// scalars and headers (length and capacity of slices, integers, strings)
			fmt.Fprintf(h, "|%s", c20Shallow(rv))
			// everything reachable, of any type (integers and arrays inside structs behind pointers, interfaces and
			// maps: e.g. the internal state of a shared hash.Hash)
			fmt.Fprintf(h, "|%x", verifHash(v.Ptr))
		}()
		var s [32]byte
		copy(s[:], h.Sum(nil))
		per[v.Name] = s
		all.Write([]byte(v.Name))
		all.Write(s[:])
	}
	copy(total[:], all.Sum(nil))
	return
}

// package-level variables whose content could not be walked completely (reported in the evidence)
var c20Unwalkable sync.Map

func c20Shallow(v reflect.Value) string {
	switch v.Kind() {
	case reflect.Slice:
		return fmt.Sprintf("slice(len=%d,cap=%d)", v.Len(), v.Cap())
	case reflect.String:
		return "string:" + v.String()
	case reflect.Bool, reflect.Int, reflect.Int8, reflect.Int16, reflect.Int32, reflect.Int64, reflect.Uint, reflect.Uint8, reflect.Uint16, reflect.Uint32, reflect.Uint64:
		return fmt.Sprintf("%v", v)
	case reflect.Ptr, reflect.Interface:
		if v.IsNil() {
			return "nil"
		}
		return "set"
	}
	return v.Kind().String()
}

// a scripted pair of conversations
type c20Thread struct {
	Kept  [][2][]byte `verif:"nohash"` // (copy taken at return time, the slice as returned) of every emitted message
	W     *verifWorld
	Steps []verifEv
	Pos   int
	Asked [2]bool
}

func c20Script(kind int) []verifEv {
	d := func(i int) verifEv { return verifEv{K: "deliver", I: i} }
	base := []verifEv{{K: "query", I: 0}, d(1), d(0), d(1), d(0), d(1),
		{K: "send", I: 0, S: "hello"}, d(1), d(0),
		{K: "send", I: 1, S: "world"}, d(0), d(1)}
	switch kind % 3 {
	case 0: // error message, SMP, end
		return append(base, verifEv{K: "error", I: 1}, d(0), verifEv{K: "smpstart", I: 0}, d(1), verifEv{K: "smpanswer", I: 1}, d(0), d(1), d(0),
			verifEv{K: "end", I: 0}, d(1))
	case 1: // fragmentation, resend path, end
		return append(base, verifEv{K: "frag", I: 0}, verifEv{K: "send", I: 0, S: strings.Repeat("fragmented text ", 20)}, d(1), d(1), d(1), d(1), d(1), d(1),
			verifEv{K: "extrakey", I: 1}, d(0), verifEv{K: "end", I: 1}, d(0))
	default: // whitespace tag start, required encryption
		return []verifEv{{K: "send", I: 0, S: "tagged"}, d(1), d(0), d(1), d(0), d(1), d(0), {K: "send", I: 1, S: "reply"}, d(0), d(1), {K: "end", I: 0}, d(1)}
	}
}

func c20World(seed int64, kind int) *verifWorld {
	if kind == 3 {
		// a pair that draws from the system's randomness source, as conversations do when the application sets none
		// (not reproducible: used where only package-level state is compared)
		w := verifNewPair(verifPairCfg{Seed: seed + 3, PolA: verifParsePol("3e"), PolB: verifParsePol("3e")})
		w.P[0].C.Rand, w.P[1].C.Rand = cryptorand.Reader, cryptorand.Reader
		return w
	}
	switch kind % 3 {
	case 0:
		return verifNewPair(verifPairCfg{Seed: seed + int64(kind), PolA: verifParsePol("3e"), PolB: verifParsePol("3e")})
	case 1:
		return verifNewPair(verifPairCfg{Seed: seed + int64(kind), PolA: verifParsePol("2"), PolB: verifParsePol("23")})
	}
	return verifNewPair(verifPairCfg{Seed: seed + int64(kind), PolA: verifParsePol("23ws"), PolB: verifParsePol("23ws")})
}

// c20Step executes the next step of a thread and renders everything observable
func c20Step(t *c20Thread) string {
	e := t.Steps[t.Pos]
	t.Pos++
	w := t.W
	p := w.P[e.I]
	var r verifResult
	switch e.K {
	case "query":
		w.Q[1-e.I] = append(w.Q[1-e.I], p.Query())
		return "query"
	case "deliver":
		if len(w.Q[e.I]) == 0 {
			return "nothing to deliver"
		}
		r = p.Receive(w.pop(e.I))
	case "send":
		r = p.Send([]byte(e.S))
	case "error":
		w.Q[1-e.I] = append(w.Q[1-e.I], []byte("?OTR Error: scripted"))
		return "error injected"
	case "smpstart":
		r = p.StartSMP("q", []byte("s"))
	case "smpanswer":
		r = p.AnswerSMP([]byte("s"))
	case "frag":
		p.C.SetFragmentSize(120)
		return "fragment size set"
	case "extrakey":
		r = p.ExtraKey(5, []byte("x"))
	case "end":
		r = p.End()
	}
	w.push(e.I, r.Out)
	for i := range r.Out {
		t.Kept = append(t.Kept, [2][]byte{r.Out[i], r.Alias[i]})
	}
	var b strings.Builder
	fmt.Fprintf(&b, "%s:plain=%q,err=%q,panic=%q,ev=[%s],key=%x,out=", e, r.Plain, r.Err, r.Panic, verifEventsString(r.Events), r.Key)
	for _, o := range r.Out {
		h := sha256.Sum256(o)
		fmt.Fprintf(&b, "%x/%d ", h[:6], len(o))
	}
	return b.String()
}

func c20Solo(seed int64, kind int) []string {
	t := &c20Thread{W: c20World(seed, kind), Steps: c20Script(kind)}
	var out []string
	for t.Pos < len(t.Steps) {
		out = append(out, c20Step(t))
	}
	return out
}

type monC20 struct {
	T []*c20Thread
}

var c20InitOnce sync.Once
var c20InitHash map[string][32]byte

func verifC20Sys(id string, seed int64) *verifSys {
	// id: "T<n>/k<digits>": n threads running the scripts of the given kinds
	var nt int
	var kinds string
	if _, err := fmt.Sscanf(id, "T%d/k%s", &nt, &kinds); err != nil || len(kinds) != nt {
		return nil
	}
	kindOf := func(k int) int { return int(kinds[k] - '0') }
	// one worker: the subject is process-wide state, parallel workers would disturb each other
	sys := &verifSys{Prop: "C20", ID: id, Seed: seed, Workers: 1}
	var solo [][]string
	sys.Init = func() *verifWorld {
		c20InitOnce.Do(func() { _, c20InitHash = c20PkgHash() })
		m := &monC20{}
		solo = nil
		for k := 0; k < nt; k++ {
			solo = append(solo, c20Solo(seed+int64(100*k), kindOf(k))) // own key material per thread, also for equal scripts
			steps := c20Script(kindOf(k))
			if nt > 2 {
				steps = steps[:verifMin(len(steps), 14)]
			}
			m.T = append(m.T, &c20Thread{W: c20World(seed+int64(100*k), kindOf(k)), Steps: steps})
		}
		return &verifWorld{Mon: m}
	}
	sys.Evs = func(w *verifWorld) []verifEv {
		m := w.Mon.(*monC20)
		var evs []verifEv
		for k, t := range m.T {
			if t.Pos < len(t.Steps) {
				evs = append(evs, verifEv{K: "step", I: k})
			}
		}
		return evs
	}
	sys.Apply = func(w *verifWorld, e verifEv) []verifFinding {
		m := w.Mon.(*monC20)
		t := m.T[e.I]
		pos := t.Pos
		got := c20Step(t)
		var fs []verifFinding
		if got != solo[e.I][pos] {
			fs = append(fs, verifFinding{"C20:behaviour-differs-from-solo-run", fmt.Sprintf("thread %d step %d (%s) behaves differently than when its script runs alone:\n      alone:       %s\n      interleaved: %s", e.I, pos, t.Steps[pos], verifTrunc2(solo[e.I][pos], 300), verifTrunc2(got, 300))})
		}
		// every message any thread was handed so far must still read the same (no shared backing arrays)
		for k, th := range m.T {
			for _, kv := range th.Kept {
				if !bytes.Equal(kv[0], kv[1]) {
					fs = append(fs, verifFinding{"C20:returned-message-overwritten", fmt.Sprintf("a message returned to thread %d earlier reads differently after step %s of thread %d: the library handed out memory it still writes to", k, t.Steps[pos], e.I)})
					kv[1] = kv[0]
				}
			}
		}
		_, per := c20PkgHash()
		for name, h := range per {
			if h != c20InitHash[name] {
				fs = append(fs, verifFinding{"C20:package-state-modified:" + name, fmt.Sprintf("package-level variable %s (deep content, spare capacity included) changed during step %s of thread %d", name, t.Steps[pos], e.I)})
			}
		}
		return fs
	}
	sys.Label = func(w *verifWorld) string { return "all scripts completed" }
	return sys
}

// VerifC20Race runs the scripts free on goroutines (meant for the -race build)
func verifC20Race(seed int64, threads, rounds int) int {
	bad := 0
	for round := 0; round < rounds; round++ {
		var wg sync.WaitGroup
		var mu sync.Mutex
		for k := 0; k < threads; k++ {
			wg.Add(1)
			go func(k int) {
				defer wg.Done()
				got := c20Solo(seed, k)
				want := c20SoloCached(seed, k)
				same := len(got) == len(want)
				for i := 0; same && i < len(got); i++ {
					same = got[i] == want[i]
				}
				if !same {
					mu.Lock()
					bad++
					mu.Unlock()
				}
			}(k)
		}
		wg.Wait()
	}
	fmt.Printf("c20race: %d rounds x %d goroutines, transcripts differing from the solo run: %d\n", rounds, threads, bad)
	if bad > 0 {
		return 1
	}
	return 0
}

var c20SoloMu sync.Mutex
var c20SoloMemo = map[string][]string{}

// the sequential reference transcripts are computed once, before any goroutine is started
func c20SoloCached(seed int64, kind int) []string {
	c20SoloMu.Lock()
	defer c20SoloMu.Unlock()
	return c20SoloMemo[fmt.Sprintf("%d/%d", seed, kind)]
}

func verifC20RaceMain(seed int64) int {
	const threads, rounds = 16, 3
	for k := 0; k < threads; k++ {
		verifKey(seed+int64(k), "A")
		verifKey(seed+int64(k), "B")
		c20SoloMemo[fmt.Sprintf("%d/%d", seed, k)] = c20Solo(seed, k)
	}
	return verifC20Race(seed, threads, rounds)
}

func init() {
	verifChecks["C20"] = &verifCheck{
		Level: "model_checking",
		Build: verifC20Sys,
		ReplayCase: func(cj string, seed int64) []verifFinding {
			if strings.Contains(cj, "\"points\"") {
				tmp := &verifReport{Prop: "C20", Seed: seed, Tier: "quick", Outcomes: map[string]int64{}, Extra: map[string]interface{}{}}
				c20RunPointsBinary(tmp)
				var fs []verifFinding
				for _, v := range tmp.Violations {
					fs = append(fs, verifFinding{v.Sig, v.Detail})
				}
				return fs
			}
			// the race detector samples schedules: a race that exists shows up within a few runs
			for try := 0; try < 4; try++ {
				out, races := c20RunRaceBinary(seed)
				if races > 0 {
					return []verifFinding{{"C20:data-race", out}}
				}
			}
			return nil
		},
		Run: func(r *verifReport) {
			r.Rule = "threads = independent scripted conversation pairs (handshake by query or whitespace tag, texts with rotation, OTR error, SMP, fragmentation, extra key, End; different versions and policies per thread). (1) ALL interleavings of their API calls (2 threads with full scripts, 3 threads with shortened ones) are executed on the real code, states matched on (positions, every thread's world); after EVERY step every package-level variable of package otr3 (list generated from the working tree) is compared bit for bit — deep: byte buffers to full capacity, and a canonical hash of everything reachable — with its value after init, and the step's observable result (plaintext, error, events, hashes of emitted bytes) with the same step of the script run alone. (2) Point granularity, on a binary built from instrumented copies of the sources (a call at the entry of every function and before every statement that names a package-level variable): each script runs alone and the same comparison of all package-level variables is made at EVERY point (a write undone before the call returns is seen); two scripts run as goroutines under a cooperative scheduler and for EVERY access point k of either thread that thread is preempted at k, the other runs to completion, the first resumes (thorough: every function entry is a preemption point, and two preemptions at access points), each step compared with the solo run. Because conversations can only meet in package-level state, 'no point ever sees it modified' implies that steps of different conversations commute at that granularity. (3) Separately the same scripts run free on 16 goroutines under the race detector (sampling, corroboration only)"
			r.Assumptions = []string{"a write to package-level state through an alias (a pointer or slice taken earlier), undone before the next function entry or named access, escapes the point comparison (the race-detector pass looks there, by sampling)", "memory-model effects below sequential consistency are not modelled"}
			ids := []string{"T2/k01", "T2/k20", "T2/k11"}
			if r.Tier == "thorough" {
				ids = []string{"T2/k01", "T2/k20", "T2/k11", "T2/k12", "T2/k22", "T2/k00", "T3/k012"}
			}
			for _, id := range ids {
				r.explore(verifC20Sys(id, r.Seed))
			}
			r.Extra["package_level_variables_watched"] = len(verifPkgVars)
			unw := []string{}
			c20Unwalkable.Range(func(k, v interface{}) bool { unw = append(unw, fmt.Sprintf("%v: %v", k, v)); return true })
			sort.Strings(unw)
			r.Extra["package_level_variables_not_fully_walked"] = unw
			c20RunPointsBinary(r)
			out, races := c20RunRaceBinary(r.Seed)
			r.Extra["race_detector_pass"] = strings.TrimSpace(out)
			if races > 0 {
				r.addCase("C20", "C20:data-race", verifTrunc2(out, 3000), map[string]string{"race": "see output"})
			} else if races < 0 {
				r.Caps = append(r.Caps, "race-detector pass could not run: "+verifTrunc2(out, 300))
			}
		},
	}
}

// c20RunPointsBinary runs bin/otrmc-pts (instrumented copies of the sources, see prop_c20pts.go) in 16 shards
func c20RunPointsBinary(r *verifReport) {
	bin := filepath.Join(verifRoot(), "bin", "otrmc-pts")
	if _, err := os.Stat(bin); err != nil {
		r.Caps = append(r.Caps, "point-granularity pass could not run: bin/otrmc-pts not built")
		return
	}
	n := runtime.NumCPU()
	outs := make([]string, n)
	var wg sync.WaitGroup
	for sh := 0; sh < n; sh++ {
		wg.Add(1)
		go func(sh int) {
			defer wg.Done()
			cmd := exec.Command(bin, "c20points", r.Tier, fmt.Sprint(r.Seed), fmt.Sprint(sh), fmt.Sprint(n))
			var buf bytes.Buffer
			cmd.Stdout, cmd.Stderr = &buf, &buf
			// one processor per shard: the threads are cooperative anyway, and per-processor caches of the runtime
			// (sync.Pool) are then shared by the two threads as they would be under real preemption on one core
			cmd.Env = append(os.Environ(), "GOMAXPROCS=1")
			err := cmd.Run()
			outs[sh] = buf.String()
			if err != nil {
				outs[sh] += fmt.Sprintf("\nc20points: shard %d failed: %v\n", sh, err)
			}
		}(sh)
	}
	wg.Wait()
	var summary []string
	var execs, points int64
	for sh, o := range outs {
		if !strings.Contains(o, "c20points: preemption") || strings.Contains(o, "failed:") || strings.Contains(o, "NOT-INSTRUMENTED") {
			r.Caps = append(r.Caps, fmt.Sprintf("point-granularity pass, shard %d: %s", sh, verifTrunc2(o, 400)))
			r.Exhaustive = false
			continue
		}
		for _, line := range strings.Split(o, "\n") {
			switch {
			case strings.HasPrefix(line, "FINDING\t"):
				f := strings.SplitN(line, "\t", 3)
				if len(f) == 3 {
					r.addCase("C20", f[1], f[2], map[string]string{"points": f[2]})
				}
			case strings.HasPrefix(line, "c20points: invariance"):
				summary = append(summary, strings.TrimPrefix(line, "c20points: "))
				var k, p, a, m int
				fmt.Sscanf(line, "c20points: invariance script=%d points=%d access_points=%d modified=%d", &k, &p, &a, &m)
				points += int64(p)
			case strings.HasPrefix(line, "c20points: preemption"):
				var e int
				if i := strings.Index(line, "executions="); i >= 0 {
					fmt.Sscanf(line[i:], "executions=%d", &e)
				}
				execs += int64(e)
				if sh == 0 {
					summary = append(summary, strings.TrimPrefix(line[:strings.Index(line, " executions=")], "c20points: "))
				}
			}
		}
	}
	r.Extra["point_granularity_pass"] = summary
	r.Extra["points_at_which_package_state_was_compared"] = points
	r.Extra["preemption_schedules_executed"] = execs
	r.Traces += execs
	r.Transitions += points
}

// c20RunRaceBinary runs bin/otrmc-race (built by ./check for C20); returns its output and the number of race reports (-1: could not run)
func c20RunRaceBinary(seed int64) (string, int) {
	bin := filepath.Join(verifRoot(), "bin", "otrmc-race")
	if _, err := os.Stat(bin); err != nil {
		return "bin/otrmc-race not built", -1
	}
	cmd := exec.Command(bin, "c20race", fmt.Sprint(seed))
	var buf bytes.Buffer
	cmd.Stdout, cmd.Stderr = &buf, &buf
	cmd.Env = append(os.Environ(), "GORACE=halt_on_error=0 exitcode=0")
	err := cmd.Run()
	out := buf.String()
	n := strings.Count(out, "WARNING: DATA RACE")
	if n == 0 && (err != nil || !strings.Contains(out, "c20race:")) {
		return fmt.Sprintf("%v: %s", err, out), -1
	}
	if strings.Contains(out, "transcripts differing from the solo run: 0") == false && n == 0 {
		return out, 1
	}
	return out, n
}

var _ io.Reader
