//go:build verif

package otr3

import (
	"encoding/json"
	"fmt"
	"os"
	"path/filepath"
	"sort"
	"strconv"
	"strings"
	"sync"
	"time"
)

// ---------------------------------------------------------------------------
// run report → evidence file

type verifReport struct {
	Prop   string
	Tier   string
	Seed   int64
	Level  string
	start  time.Time
	budget time.Duration

	States, Transitions, Traces int64 // model-checking counters
	MaxPaths                    int64
	Evals, Nontrivial           int64 // enumeration counters
	Outcomes                    map[string]int64
	Samples                     []interface{}
	Rule                        string
	Exhaustive                  bool
	Caps                        []string
	Assumptions                 []string
	Extra                       map[string]interface{}
	Violations                  []*verifViolation
	Parts                       []map[string]interface{}
}

func (r *verifReport) deadline() time.Time { return r.start.Add(r.budget) }

// explore runs one exploration and folds its statistics into the report.
func (r *verifReport) explore(sys *verifSys) verifStats {
	st, vs := verifExplore(sys, r.deadline(), 0)
	r.States += st.States
	r.Transitions += st.Transitions
	r.MaxPaths += st.MaxPaths
	r.Traces += st.MaxPaths
	for k, n := range st.Outcomes {
		r.Outcomes[sys.ID+": "+k] += n
	}
	if st.Cut {
		r.Exhaustive = false
		r.Caps = append(r.Caps, "deadline/state cap reached in "+sys.ID)
	}
	for _, p := range st.SamplePaths {
		if len(r.Samples) < 12 {
			r.Samples = append(r.Samples, map[string]string{"sys": sys.ID, "path": p})
		}
	}
	r.Parts = append(r.Parts, map[string]interface{}{"sys": sys.ID, "states": st.States, "transitions": st.Transitions,
		"maximal_paths": st.MaxPaths, "max_depth": st.MaxDepth, "distinct_outcomes": len(st.Outcomes), "cut": st.Cut})
	for _, v := range vs {
		r.addViolation(v)
	}
	return st
}

func (r *verifReport) addViolation(v *verifViolation) {
	for _, o := range r.Violations {
		if o.Sig == v.Sig {
			o.Count += v.Count
			if len(v.Path) < len(o.Path) {
				o.Path, o.Detail, o.Sys, o.Seed = v.Path, v.Detail, v.Sys, v.Seed
			}
			return
		}
	}
	r.Violations = append(r.Violations, v)
}

func (r *verifReport) addCase(prop, sig, detail string, c interface{}) {
	for _, v := range r.Violations {
		if v.Sig == sig {
			v.Count++
			if len(v.More) < 8 {
				v.More = append(v.More, detail)
			}
			return
		}
	}
	r.Violations = append(r.Violations, &verifViolation{Prop: prop, Sig: sig, Detail: detail, Seed: r.Seed, Case: verifJSON(c), Count: 1})
}

func (r *verifReport) sample(s interface{}) {
	if len(r.Samples) < 12 {
		r.Samples = append(r.Samples, s)
	}
}

type verifKnown struct {
	Property string `json:"property"`
	Sig      string `json:"signature"`
	Status   string `json:"status"` // "known" | "fixed"
	Commit   string `json:"commit,omitempty"`
	What     string `json:"what"`
}

func verifLoadKnown() []verifKnown {
	var ks struct {
		Findings []verifKnown `json:"findings"`
	}
	b, err := os.ReadFile(filepath.Join(verifRoot(), "known_findings.json"))
	if err != nil {
		return nil
	}
	if err := json.Unmarshal(b, &ks); err != nil {
		fmt.Fprintln(os.Stderr, "verif: known_findings.json:", err)
		os.Exit(2)
	}
	return ks.Findings
}

func verifRoot() string {
	if d := os.Getenv("VERIF_ROOT"); d != "" {
		return d
	}
	return "/verif"
}

func verifSigMatch(pattern, sig string) bool {
	if strings.Contains(pattern, "*") {
		return verifGlob(pattern, sig)
	}
	if false {
		return strings.HasPrefix(sig, strings.TrimSuffix(pattern, "*"))
	}
	return pattern == sig
}

// finish writes the evidence, prints verdict lines and returns the exit code.
func (r *verifReport) finish() int {
	known := verifLoadKnown()
	exit := 0
	engineErr := false
	nviol := 0
	sort.Slice(r.Violations, func(i, j int) bool { return r.Violations[i].Sig < r.Violations[j].Sig })
	var knownSeen []string
	for _, v := range r.Violations {
		isKnown := false
		for _, k := range known {
			if k.Status == "known" && k.Property == r.Prop && verifSigMatch(k.Sig, v.Sig) {
				isKnown = true
				fmt.Printf("KNOWN-FINDING: property=%s %s [%s] (%d occurrence(s) this run)\n", r.Prop, k.What, v.Sig, v.Count)
				knownSeen = append(knownSeen, v.Sig)
			}
		}
		if isKnown {
			continue
		}
		// confirm by replaying twice outside the explorer
		if v.Path != nil || v.Sys != "" {
			ok := true
			for i := 0; i < 2 && ok; i++ {
				sys := verifBuildSys(v.Prop, v.Sys, v.Seed)
				if sys == nil {
					ok = false
					break
				}
				sigs, _, err := verifReplay(sys, v.Path)
				found := false
				for _, s := range sigs {
					if s == v.Sig {
						found = true
					}
				}
				if err != nil || !found {
					ok = false
				}
			}
			if !ok {
				fmt.Fprintf(os.Stderr, "ENGINE-ERROR: finding %s did not reproduce on replay: %s\n", v.Sig, v.Detail)
				engineErr = true
				continue
			}
		}
		if v.Case != "" {
			if c := verifChecks[v.Prop]; c != nil && c.ReplayCase != nil {
				for i := 0; i < 2; i++ {
					found := false
					for _, f := range c.ReplayCase(v.Case, v.Seed) {
						if f.Sig == v.Sig {
							found = true
						}
					}
					if !found {
						fmt.Fprintf(os.Stderr, "ENGINE-ERROR: case finding %s did not reproduce on replay: %s\n", v.Sig, v.Detail)
						return 2
					}
				}
			}
		}
		nviol++
		exit = 1
		file := filepath.Join(verifRoot(), "replays", fmt.Sprintf("%s-%s.json", r.Prop, verifShort(v.Sig)))
		_ = os.MkdirAll(filepath.Dir(file), 0o755)
		b, _ := json.MarshalIndent(v, "", " ")
		_ = os.WriteFile(file, b, 0o644)
		fmt.Printf("  finding: %s\n    %s\n    sys: %s seed: %d\n    path: %s\n", v.Sig, v.Detail, v.Sys, v.Seed, verifPathString(v.Path))
		for _, m := range v.More {
			fmt.Printf("    also: %s\n", m)
		}
		fmt.Printf("    (%d occurrence(s))\n", v.Count)
		fmt.Printf("VIOLATION property=%s replay=%s\n", r.Prop, file)
	}
	r.writeEvidence(nviol, knownSeen)
	if engineErr && exit == 0 {
		return 2 // a finding that does not reproduce is a broken check, not a violation
	}
	return exit
}

func verifShort(s string) string {
	var b strings.Builder
	for _, c := range s {
		switch {
		case c >= 'a' && c <= 'z', c >= 'A' && c <= 'Z', c >= '0' && c <= '9', c == '-', c == '_', c == '.':
			b.WriteRune(c)
		default:
			b.WriteByte('_')
		}
	}
	out := b.String()
	if len(out) > 100 {
		out = out[:100]
	}
	return out
}

func (r *verifReport) writeEvidence(nviol int, knownSeen []string) {
	cov := map[string]interface{}{
		"exhaustive": r.Exhaustive,
		"samples":    r.Samples,
		"rule":       r.Rule,
	}
	if r.States > 0 {
		cov["states"] = r.States
		cov["transitions"] = r.Transitions
		cov["traces_validated_against_impl"] = r.Traces
		cov["maximal_paths"] = r.MaxPaths
	}
	if r.Evals > 0 || r.States == 0 {
		cov["evaluations"] = r.Evals
		cov["distinct_nontrivial"] = r.Nontrivial
	} else {
		cov["evaluations"] = r.Transitions
		cov["distinct_nontrivial"] = r.States
	}
	if len(r.Outcomes) > 0 {
		cov["distinct_outcomes"] = len(r.Outcomes)
		type kv struct {
			K string
			N int64
		}
		var kvs []kv
		for k, n := range r.Outcomes {
			kvs = append(kvs, kv{k, n})
		}
		sort.Slice(kvs, func(i, j int) bool { return kvs[i].K < kvs[j].K })
		if len(kvs) > 40 {
			kvs = kvs[:40]
		}
		oc := map[string]int64{}
		for _, x := range kvs {
			oc[x.K] = x.N
		}
		cov["outcomes"] = oc
	}
	if len(r.Caps) > 0 {
		cov["caps_hit"] = r.Caps
	}
	if len(r.Parts) > 0 {
		parts := r.Parts
		if len(parts) > 60 {
			parts = parts[:60]
		}
		cov["parts"] = parts
		cov["parts_total"] = len(r.Parts)
	}
	if len(knownSeen) > 0 {
		cov["known_findings_observed"] = knownSeen
	}
	for k, v := range r.Extra {
		cov[k] = v
	}
	verifStatMu.Lock()
	if len(verifStats_) > 0 {
		cov["counters"] = verifStats_
	}
	verifStatMu.Unlock()
	if len(r.Samples) == 0 {
		cov["samples"] = []interface{}{"(no samples recorded)"}
	}
	ev := map[string]interface{}{
		"property_id": r.Prop,
		"tier":        r.Tier,
		"seed":        r.Seed,
		"level":       r.Level,
		"coverage":    cov,
		"assumptions": r.Assumptions,
		"wall_s":      time.Since(r.start).Seconds(),
		"violations":  nviol,
	}
	b, _ := json.MarshalIndent(ev, "", " ")
	dir := filepath.Join(verifRoot(), "evidence")
	_ = os.MkdirAll(dir, 0o755)
	if err := os.WriteFile(filepath.Join(dir, r.Prop+".json"), b, 0o644); err != nil {
		fmt.Fprintln(os.Stderr, "verif: cannot write evidence:", err)
	}
}

// ---------------------------------------------------------------------------
// registry

type verifCheck struct {
	Level string
	Run   func(r *verifReport)
	// Build reconstructs the system with the given id for replay.
	Build func(id string, seed int64) *verifSys
	// ReplayCase re-evaluates one enumerated case.
	ReplayCase func(caseJSON string, seed int64) []verifFinding
}

var verifChecks = map[string]*verifCheck{}

func verifBuildSys(prop, id string, seed int64) *verifSys {
	c := verifChecks[prop]
	if c == nil || c.Build == nil {
		return nil
	}
	return c.Build(id, seed)
}

func verifSeed() int64 {
	if s := os.Getenv("VERIF_SEED"); s != "" {
		if n, err := strconv.ParseInt(s, 10, 64); err == nil {
			return n
		}
	}
	return 1
}

// VerifMain is the entry point of the model-checking harness (overlaid into the package at build time).
func VerifMain(args []string) int {
	if len(args) < 2 {
		fmt.Fprintln(os.Stderr, "usage: otrmc check <Cxx> quick|thorough | replay <file>")
		return 2
	}
	switch args[0] {
	case "c13worker":
		return verifC13Worker(args[1:])
	case "c20points":
		return VerifC20Points(args[1:])
	case "c20race":
		seed, _ := strconv.ParseInt(args[1], 10, 64)
		return verifC20RaceMain(seed)
	case "check":
		prop := args[1]
		tier := "quick"
		if len(args) > 2 {
			tier = args[2]
		}
		if t := os.Getenv("VERIF_TIER"); t != "" && len(args) <= 2 {
			tier = t
		}
		c := verifChecks[prop]
		if c == nil {
			fmt.Fprintln(os.Stderr, "unknown property", prop)
			return 2
		}
		r := &verifReport{Prop: prop, Tier: tier, Seed: verifSeed(), Level: c.Level, start: time.Now(), Exhaustive: true,
			Outcomes: map[string]int64{}, Extra: map[string]interface{}{}}
		r.budget = 100 * time.Second
		if tier == "thorough" {
			r.budget = 25 * time.Minute
		}
		if b := os.Getenv("VERIF_BUDGET_S"); b != "" {
			if n, err := strconv.Atoi(b); err == nil {
				r.budget = time.Duration(n) * time.Second
			}
		}
		c.Run(r)
		code := r.finish()
		fmt.Printf("%s %s: states=%d transitions=%d maximal_paths=%d evaluations=%d nontrivial=%d outcomes=%d exhaustive=%v wall=%.1fs exit=%d\n",
			prop, tier, r.States, r.Transitions, r.MaxPaths, r.Evals, r.Nontrivial, len(r.Outcomes), r.Exhaustive, time.Since(r.start).Seconds(), code)
		return code
	case "trace":
		// trace <prop> <sysid> <event> <event> ...   (events as printed: "deliver(0)" "reorder(1,2)")
		sys := verifBuildSys(args[1], args[2], verifSeed())
		if sys == nil {
			return 2
		}
		w := sys.Init()
		verifTraceDump(w)
		for _, a := range args[3:] {
			var ev verifEv
			a = strings.TrimSuffix(a, ")")
			ix := strings.Index(a, "(")
			ev.K = a[:ix]
			fs := strings.Split(a[ix+1:], ",")
			ev.I, _ = strconv.Atoi(fs[0])
			if len(fs) > 1 {
				ev.J, _ = strconv.Atoi(fs[1])
			}
			verifTraceOn = true
			res := sys.Apply(w, ev)
			verifTraceOn = false
			fmt.Printf("== %s\n", ev)
			for _, f := range res {
				fmt.Printf("   FINDING %s: %s\n", f.Sig, f.Detail)
			}
			if sys.OnNew != nil {
				for _, f := range sys.OnNew(w) {
					fmt.Printf("   FINDING(probe) %s: %s\n", f.Sig, f.Detail)
				}
			}
			verifTraceDump(w)
		}
		return 0
	case "replay":
		b, err := os.ReadFile(args[1])
		if err != nil {
			fmt.Fprintln(os.Stderr, err)
			return 2
		}
		var v verifViolation
		if err := json.Unmarshal(b, &v); err != nil {
			fmt.Fprintln(os.Stderr, err)
			return 2
		}
		c := verifChecks[v.Prop]
		if c == nil {
			return 2
		}
		var sigs []string
		var details map[string]string
		if v.Case != "" {
			details = map[string]string{}
			for _, f := range c.ReplayCase(v.Case, v.Seed) {
				sigs = append(sigs, f.Sig)
				details[f.Sig] = f.Detail
			}
		} else {
			sys := verifBuildSys(v.Prop, v.Sys, v.Seed)
			if sys == nil {
				fmt.Fprintln(os.Stderr, "cannot rebuild system", v.Sys)
				return 2
			}
			sigs, details, err = verifReplay(sys, v.Path)
			if err != nil {
				fmt.Fprintln(os.Stderr, err)
				return 2
			}
		}
		for _, s := range sigs {
			if s == v.Sig {
				fmt.Printf("reproduced: %s\n  %s\n", s, details[s])
				fmt.Printf("VIOLATION property=%s replay=%s\n", v.Prop, args[1])
				return 1
			}
		}
		fmt.Printf("not reproduced (observed: %v)\n", sigs)
		return 0
	}
	return 2
}

// run-wide statistics counters (evidence only; never influence verdicts)
var verifStatMu sync.Mutex
var verifStats_ = map[string]int64{}

func verifCount(name string, n int64) {
	verifStatMu.Lock()
	verifStats_[name] += n
	verifStatMu.Unlock()
}

var verifTraceOn bool

func verifTraceDump(w *verifWorld) {
	for i, p := range w.P {
		c := p.C
		fmt.Printf("   %s: %s/%s keyids our=%d their=%d ssid=%x resend=%d mayRetransmit=%d  queue→%s:", p.Name, verifMsgStateName(c), verifAuthStateName(c), c.keys.ourKeyID, c.keys.theirKeyID, c.ssid[:4], len(c.resend.messages.m), c.resend.mayRetransmit, p.Name)
		if i < len(w.Q) {
			for _, m := range w.Q[i] {
				fmt.Printf(" [%s]", verifMsgKind(m))
			}
		}
		fmt.Println()
	}
}

func verifMsgKind(m []byte) string {
	switch guessMessageType(m) {
	case msgGuessDHCommit:
		return "COMMIT"
	case msgGuessDHKey:
		return "DHKEY"
	case msgGuessRevealSig:
		return "REVEALSIG"
	case msgGuessSignature:
		return "SIG"
	case msgGuessData:
		return "DATA"
	case msgGuessQuery:
		return "QUERY"
	case msgGuessError:
		return "ERROR"
	case msgGuessFragment:
		return "FRAG"
	case msgGuessTaggedPlaintext:
		return "TAGGED"
	case msgGuessNotOTR:
		return "PLAIN:" + verifTrunc(m)
	}
	return "?"
}

func jsonUnmarshal(s string, v interface{}) error { return json.Unmarshal([]byte(s), v) }

// verifGlob matches a signature against a pattern in which '*' stands for any run of characters.
func verifGlob(pattern, s string) bool {
	parts := strings.Split(pattern, "*")
	if !strings.HasPrefix(s, parts[0]) {
		return false
	}
	s = s[len(parts[0]):]
	for i := 1; i < len(parts); i++ {
		p := parts[i]
		if i == len(parts)-1 {
			return strings.HasSuffix(s, p)
		}
		j := strings.Index(s, p)
		if j < 0 {
			return false
		}
		s = s[j+len(p):]
	}
	return true
}
