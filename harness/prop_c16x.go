//go:build verif

package otr3

import (
	"bytes"
	"encoding/binary"
	"fmt"
)

// C16 (c): a conversation whose policy allows exactly one version never acts on input in the form of the other
// version, in any state: messages of the other version (any kind, from an exchange run under that version), the
// genuine next message of its own peer with the version field rewritten, and the genuine next message wrapped in
// the other version's fragment format.

type c16XCase struct {
	Ver   int    `json:"receiver_version"`
	State string `json:"state"`
	Input string `json:"input"`
}

type c16XState struct {
	Name string
	W    *verifWorld
	R    int
	Next []byte // genuine next message for the receiver (from its own peer), nil if none
}

func c16XStates(seed int64, v int) (states []c16XState) {
	pol := verifPolFor(v)
	w := verifNewPair(verifPairCfg{Seed: seed, PolA: pol, PolB: pol})
	snap := func(name string) {
		for r := 0; r < 2; r++ {
			c := w.clone()
			c.P[0].Rec.take()
			c.P[1].Rec.take()
			st := c16XState{Name: fmt.Sprintf("%s/R=%c", name, 'A'+r), W: c, R: r}
			if len(c.Q[r]) > 0 {
				st.Next = append([]byte{}, c.Q[r][0]...)
			} else if c.P[1-r].C.IsEncrypted() && c.P[r].C.IsEncrypted() {
				x := c.clone()
				s := x.P[1-r].Send([]byte("genuine text"))
				st.Next = verifFirst(s.Out)
			}
			states = append(states, st)
		}
	}
	snap("fresh")
	w.Q[1] = append(w.Q[1], w.P[0].Query())
	names := []string{"query-delivered", "commit-delivered", "dhkey-delivered", "revealsig-delivered", "encrypted"}
	for i := 0; i < 5; i++ {
		for to := 0; to < 2; to++ {
			if len(w.Q[to]) > 0 {
				r := w.P[to].Receive(w.pop(to))
				w.push(to, r.Out)
				break
			}
		}
		snap(names[i])
	}
	for i := 0; i < 2; i++ {
		r := w.P[i].Send([]byte(fmt.Sprintf("text from %d", i)))
		w.push(i, r.Out)
		w.deliverAll(10, nil)
	}
	snap("encrypted-after-traffic")
	e := w.P[0].End()
	w.push(0, e.Out)
	w.deliverAll(10, nil)
	snap("finished")
	return
}

// genuine messages of every kind from an exchange run under version v (another session)
func c16XDonor(seed int64, v int) (out map[string][]byte) {
	out = map[string][]byte{}
	pol := verifPolFor(v)
	w := verifNewPair(verifPairCfg{Seed: seed + 77, PolA: pol, PolB: pol})
	note := func(ms [][]byte) {
		for _, m := range ms {
			k := verifMsgKind(m)
			if out[k] == nil {
				out[k] = append([]byte{}, m...)
			}
		}
	}
	w.Q[1] = append(w.Q[1], w.P[0].Query())
	w.deliverAll(20, func(_ int, _ []byte, r verifResult) { note(r.Out) })
	s := w.P[0].Send([]byte("donor text"))
	note(s.Out)
	w.P[0].C.SetFragmentSize(200)
	f := w.P[0].Send([]byte("donor fragmented"))
	if len(f.Out) > 1 {
		out["FRAG-first"] = f.Out[0]
		out["FRAG-last"] = f.Out[len(f.Out)-1]
	}
	return
}

// the message with its version field rewritten to v (instance tags added or removed to fit the header format)
func c16XReversion(m []byte, v int, snd, rcv uint32) []byte {
	if !bytes.HasPrefix(m, []byte("?OTR:")) {
		return nil
	}
	raw, err := decode(encodedMessage(m))
	if err != nil || len(raw) < 3 {
		return nil
	}
	from := int(binary.BigEndian.Uint16(raw))
	var b []byte
	switch {
	case from == 3 && v == 2 && len(raw) >= 11:
		b = append([]byte{0, 2, raw[2]}, raw[11:]...)
	case from == 2 && v == 3:
		b = append([]byte{0, 3, raw[2]}, AppendWord(AppendWord(nil, snd), rcv)...)
		b = append(b, raw[3:]...)
	default:
		return nil
	}
	return c13B64(b)
}

// the message cut into n pieces in the fragment format of version v
func c16XFragments(m []byte, v, n int, snd, rcv uint32) (out [][]byte) {
	l := (len(m) + n - 1) / n
	for k := 0; k < n; k++ {
		lo, hi := k*l, (k+1)*l
		if hi > len(m) {
			hi = len(m)
		}
		if v == 2 {
			out = append(out, []byte(fmt.Sprintf("?OTR,%05d,%05d,%s,", k+1, n, m[lo:hi])))
		} else {
			out = append(out, []byte(fmt.Sprintf("?OTR|%08x|%08x,%05d,%05d,%s,", snd, rcv, k+1, n, m[lo:hi])))
		}
	}
	return
}

type c16XInput struct {
	Name string
	Msgs [][]byte
}

func c16XInputs(st c16XState, v int, donor map[string][]byte) (ins []c16XInput) {
	ov := 5 - v
	R, P := st.W.P[st.R], st.W.P[1-st.R]
	snd, rcv := P.C.ourInstanceTag, R.C.ourInstanceTag
	if snd == 0 {
		snd = 0x12345678
	}
	for _, k := range []string{"COMMIT", "DHKEY", "REVEALSIG", "SIG", "DATA", "FRAG-first", "FRAG-last"} {
		if m := donor[k]; m != nil {
			ins = append(ins, c16XInput{fmt.Sprintf("v%d %s of another exchange", ov, k), [][]byte{m}})
			if frs := c16XFragments(m, ov, 2, snd, rcv); !bytes.HasPrefix(m, []byte("?OTR,")) && !bytes.HasPrefix(m, []byte("?OTR|")) {
				ins = append(ins, c16XInput{fmt.Sprintf("v%d %s of another exchange in 2 v%d-format fragments", ov, k, ov), frs})
			}
		}
	}
	if st.Next != nil && bytes.HasPrefix(st.Next, []byte("?OTR:")) {
		if m := c16XReversion(st.Next, ov, snd, rcv); m != nil {
			ins = append(ins, c16XInput{fmt.Sprintf("genuine next message (%s) with the version field rewritten to %d", verifMsgKind(st.Next), ov), [][]byte{m}})
			ins = append(ins, c16XInput{fmt.Sprintf("genuine next message (%s) rewritten to v%d, in 2 v%d-format fragments", verifMsgKind(st.Next), ov, ov), c16XFragments(m, ov, 2, snd, rcv)})
		}
		for _, n := range []int{1, 2, 3} {
			ins = append(ins, c16XInput{fmt.Sprintf("genuine next message (%s) in %d v%d-format fragment(s)", verifMsgKind(st.Next), n, ov), c16XFragments(st.Next, ov, n, snd, rcv)})
		}
		if v == 3 {
			// tags that the receiver is not bound to must not matter for a format it does not speak at all
			ins = append(ins, c16XInput{fmt.Sprintf("genuine next message (%s) in 2 v%d-format fragments, then a genuine v%d-format fragment train", verifMsgKind(st.Next), ov, v),
				append(c16XFragments(st.Next, ov, 2, snd, rcv), c16XFragments(st.Next, v, 2, snd, rcv)...)})
		}
	}
	return
}

func c16XRun(st c16XState, v int, in c16XInput) (fs []verifFinding, acted bool) {
	ov := 5 - v
	bad := func(sig, format string, a ...interface{}) {
		fs = append(fs, verifFinding{"C16:" + sig, fmt.Sprintf("v%d-only conversation, state %s, %s: ", v, st.Name, in.Name) + fmt.Sprintf(format, a...)})
	}
	w := st.W.clone()
	R := w.P[st.R]
	mixed := bytes.Contains([]byte(in.Name), []byte("then a genuine"))
	var ref *verifPrincipal
	var refLast verifResult
	if mixed {
		// differential: the forbidden-format pieces in front must not change what the genuine train does
		ref = verifClone(R)
		for _, m := range in.Msgs[2:] {
			refLast = ref.Receive(m)
		}
	}
	h0 := verifHash(R.C)
	for i, m := range in.Msgs {
		if mixed && i == 2 {
			if verifHash(R.C) != h0 {
				bad("state-changed-by-forbidden-version", "the conversation state changed")
			}
			break
		}
		r := R.Receive(m)
		if r.Panic != "" {
			bad("panic:"+verifPanicClass(r.Panic), "%s", r.Panic)
			return fs, true
		}
		if r.HasPln && len(r.Plain) > 0 {
			bad("acted-on-forbidden-version:plaintext", "piece %d/%d yields plaintext %q to a conversation whose policy forbids v%d", i+1, len(in.Msgs), verifTrunc(r.Plain), ov)
			acted = true
		}
		for _, o := range r.Out {
			if bytes.HasPrefix(o, []byte("?OTR:")) || bytes.HasPrefix(o, []byte("?OTR,")) || bytes.HasPrefix(o, []byte("?OTR|")) {
				bad("acted-on-forbidden-version:reply", "piece %d/%d is answered with %s", i+1, len(in.Msgs), verifMsgKind(o))
				acted = true
			}
		}
		for _, ev := range r.Events {
			if ev.Kind == 'S' || ev.Kind == 'P' {
				bad("acted-on-forbidden-version:event", "piece %d/%d raised %s", i+1, len(in.Msgs), ev)
				acted = true
			}
		}
	}
	if mixed {
		var last verifResult
		for _, m := range in.Msgs[2:] {
			last = R.Receive(m)
		}
		if verifHash(R.C) != verifHash(ref.C) || !bytes.Equal(last.Plain, refLast.Plain) || len(last.Out) != len(refLast.Out) {
			bad("forbidden-version-pieces-disturb-genuine-traffic", "after the forbidden-format pieces the genuine fragment train ends differently (plaintext %q instead of %q)", verifTrunc(last.Plain), verifTrunc(refLast.Plain))
		}
		return fs, true
	}
	if verifHash(R.C) != h0 {
		// a fragment context is state too: a v2-format piece kept by a v3-only conversation is acted upon
		bad("state-changed-by-forbidden-version", "the conversation state changed")
		acted = true
	}
	return fs, acted
}

func c16Cross(r *verifReport) {
	n, inputs := 0, 0
	for _, v := range []int{3, 2} {
		donor := c16XDonor(r.Seed, 5-v)
		for _, st := range c16XStates(r.Seed, v) {
			n++
			for _, in := range c16XInputs(st, v, donor) {
				inputs++
				fs, _ := c16XRun(st, v, in)
				r.Evals++
				r.Nontrivial++
				for _, f := range fs {
					r.addCase("C16", f.Sig, f.Detail, c16XCase{v, st.Name, in.Name})
				}
			}
		}
	}
	r.Extra["cross_version_states"] = n
	r.Extra["cross_version_inputs"] = inputs
	r.Outcomes["cross-version: input in the form of the forbidden version ignored"] += int64(inputs)
}

func c16XReplay(c c16XCase, seed int64) []verifFinding {
	donor := c16XDonor(seed, 5-c.Ver)
	for _, st := range c16XStates(seed, c.Ver) {
		if st.Name != c.State {
			continue
		}
		for _, in := range c16XInputs(st, c.Ver, donor) {
			if in.Name == c.Input {
				fs, _ := c16XRun(st, c.Ver, in)
				return fs
			}
		}
	}
	return nil
}

// C16 (d): with no version allowed (any combination of the four behaviour flags) Send and Receive hand EVERY message
// through unchanged — also those that look like OTR: queries, error reports, encoded messages, fragments, tags.
type c16DCase struct {
	Flags string `json:"flags_of_disabled_policy"`
	Input string `json:"message"`
}

func c16DisabledInputs(seed int64) (names []string, msgs [][]byte) {
	add := func(n string, m []byte) { names = append(names, n); msgs = append(msgs, m) }
	for _, v := range []int{2, 3} {
		d := c16XDonor(seed, v)
		for _, k := range []string{"COMMIT", "DHKEY", "REVEALSIG", "SIG", "DATA", "FRAG-first", "FRAG-last"} {
			if d[k] != nil {
				add(fmt.Sprintf("v%d %s", v, k), d[k])
			}
		}
	}
	for _, q := range []string{"?OTR?", "?OTRv2?", "?OTRv3?", "?OTRv23?", "?OTR?v2?", "?OTRv23? with text", "?OTR Error: something", "?OTR Error:", "?OTR", "?OTR:", "?OTR:AAMD.", "?OTR,1,2,x,", "?OTR|1|2,1,2,x,", "plain text", "", " \t  \t\t\t\t \t \t \t   \t \t  \t   \t\t  \t\t"} {
		add(fmt.Sprintf("%q", q), []byte(q))
	}
	add("text with v2+v3 whitespace tag", append(append([]byte("hello"), refTagBase...), append(refWS("2"), refWS("3")...)...))
	return
}

func c16DisabledRun(flags string, name string, msg []byte, seed int64) (fs []verifFinding) {
	bad := func(sig, format string, a ...interface{}) {
		fs = append(fs, verifFinding{"C16:" + sig, fmt.Sprintf("policy %q (no version allowed), message %s: ", flags, name) + fmt.Sprintf(format, a...)})
	}
	pol := verifParsePol(flags)
	p := verifNewPrincipal(verifConvCfg{Name: "D", Seed: seed, Policies: pol, Key: verifKey(seed, "B")})
	h0 := verifHash(p.C)
	r := p.Receive(append([]byte{}, msg...))
	if r.Panic != "" {
		bad("panic:"+verifPanicClass(r.Panic), "%s", r.Panic)
		return
	}
	if !bytes.Equal(r.Plain, msg) || len(r.Out) != 0 || r.Err != "" {
		bad("otr-disabled-not-identity:receive", "Receive returned %q, %d message(s) to send, err %q", verifTrunc(r.Plain), len(r.Out), r.Err)
	}
	if verifHash(p.C) != h0 {
		bad("otr-disabled-state-changed", "Receive changed the conversation state")
	}
	s := p.Send(append([]byte{}, msg...))
	if s.Panic != "" {
		bad("panic:"+verifPanicClass(s.Panic), "%s", s.Panic)
		return
	}
	if len(s.Out) != 1 || !bytes.Equal(s.Out[0], msg) || s.Err != "" {
		bad("otr-disabled-not-identity:send", "Send returned %d message(s) (first %q), err %q", len(s.Out), verifTrunc(verifFirst(s.Out)), s.Err)
	}
	return
}

func c16DisabledFlags() (out []string) {
	for m := 0; m < 16; m++ {
		f := ""
		for i, c := range "rwse" {
			if m&(1<<uint(i)) != 0 {
				f += string(c)
			}
		}
		if f == "" {
			f = "-"
		}
		out = append(out, f)
	}
	return
}

func c16Disabled(r *verifReport) {
	names, msgs := c16DisabledInputs(r.Seed)
	n := 0
	for _, f := range c16DisabledFlags() {
		for i := range msgs {
			n++
			r.Evals++
			r.Nontrivial++
			for _, x := range c16DisabledRun(f, names[i], msgs[i], r.Seed) {
				r.addCase("C16", x.Sig, x.Detail, c16DCase{f, names[i]})
			}
		}
	}
	r.Extra["disabled_policy_cases"] = n
	r.Outcomes["no version allowed: message handed through unchanged by Receive and Send"] += int64(n)
}

func c16DReplay(c c16DCase, seed int64) []verifFinding {
	names, msgs := c16DisabledInputs(seed)
	for i := range names {
		if names[i] == c.Input {
			return c16DisabledRun(c.Flags, names[i], msgs[i], seed)
		}
	}
	return nil
}
