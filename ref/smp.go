package verifref

// Socialist Millionaires' Protocol as the OTR specification (versions 2 and 3) prescribes it: an independent
// verifier and re-deriver of the four messages. Written from the specification; shares nothing with otr3 but the
// Go standard library.

import (
	"crypto/sha256"
	"fmt"
	"math/big"
	"sync"
)

// Q = (P-1)/2, the order of the subgroup
var Q = new(big.Int).Rsh(new(big.Int).Sub(P, big.NewInt(1)), 1)

// SMPHash: SHA256(version byte, MPI(a) [, MPI(b)]) as an unsigned integer
func SMPHash(b byte, xs ...*big.Int) *big.Int {
	h := sha256.New()
	h.Write([]byte{b})
	for _, x := range xs {
		h.Write(MPI(x))
	}
	return new(big.Int).SetBytes(h.Sum(nil))
}

// SMPSecret: SHA256(0x01, initiator fingerprint, responder fingerprint, secure session id, user secret)
func SMPSecret(initFP, respFP []byte, ssid []byte, secret []byte) *big.Int {
	h := sha256.New()
	h.Write([]byte{1})
	h.Write(initFP)
	h.Write(respFP)
	h.Write(ssid)
	h.Write(secret)
	return new(big.Int).SetBytes(h.Sum(nil))
}

func exp(b, e *big.Int) *big.Int { return new(big.Int).Exp(b, e, P) }
func mulP(a, b *big.Int) *big.Int { return new(big.Int).Mod(new(big.Int).Mul(a, b), P) }
func inv(a *big.Int) *big.Int     { return new(big.Int).ModInverse(a, P) }

// d = r - a*c mod q
func dOf(r, a, c *big.Int) *big.Int {
	return new(big.Int).Mod(new(big.Int).Sub(r, new(big.Int).Mul(a, c)), Q)
}

var expCache sync.Map // "base|exponent" → result

func cachedExp(b, e *big.Int) *big.Int {
	k := string(b.Bytes()) + "|" + string(e.Bytes())
	if v, ok := expCache.Load(k); ok {
		return v.(*big.Int)
	}
	v := exp(b, e)
	expCache.Store(k, v)
	return v
}

// FindExp looks for a draw x of the randomness source with base^x = target
func FindExp(base, target *big.Int, draws [][]byte) *big.Int {
	for _, d := range draws {
		x := new(big.Int).SetBytes(d)
		if cachedExp(base, x).Cmp(target) == 0 {
			return x
		}
	}
	return nil
}

// SMPRun follows one run of the protocol from the messages on the wire
type SMPRun struct {
	Stage            int // number of the last message seen (0: none)
	G2a, G3a         *big.Int
	G2b, G3b         *big.Int
	Pb, Qb           *big.Int
	Pa, Qa           *big.Int
	A2, A3           *big.Int // initiator's exponents, recovered from its randomness log
	B2, B3           *big.Int // responder's
	G2, G3           *big.Int
	Question         []byte
	InitFP, RespFP   []byte
	SSID             [8]byte
	Secret           []byte // what both users typed (the runs followed here are honest runs with equal secrets)
	R4a, R4b         *big.Int
	ExpectSuccess    bool
}

// SplitSMP parses the payload of an SMP TLV: optional question, MPI count, MPIs
func SplitSMP(t TLV) (question []byte, mpis []*big.Int, err string) {
	v := t.Value
	if t.Type == 7 {
		i := -1
		for k, c := range v {
			if c == 0 {
				i = k
				break
			}
		}
		if i < 0 {
			return nil, nil, "SMP1Q without a NUL-terminated question"
		}
		question, v = v[:i], v[i+1:]
	}
	r := &Reader{B: v}
	n := r.Word()
	if r.Bad {
		return nil, nil, "no MPI count"
	}
	if n > 64 {
		return nil, nil, "absurd MPI count"
	}
	for i := uint32(0); i < n; i++ {
		d := r.Data()
		if r.Bad {
			return nil, nil, fmt.Sprintf("MPI %d of %d does not parse", i+1, n)
		}
		if len(d) > 0 && d[0] == 0 {
			return nil, nil, "non-minimal MPI (leading zero byte)"
		}
		mpis = append(mpis, new(big.Int).SetBytes(d))
	}
	if len(r.B) != 0 {
		return nil, nil, "trailing bytes after the MPIs"
	}
	return
}

func inGroup(x *big.Int) bool {
	return x.Cmp(big.NewInt(2)) >= 0 && x.Cmp(new(big.Int).Sub(P, big.NewInt(2))) <= 0
}

func inExp(d *big.Int) bool { return d.Sign() > 0 && d.Cmp(Q) < 0 }

// Check examines SMP TLV t sent by the initiator (fromInit) or the responder; draws = the sender's randomness log.
// It returns the deviations from the specification it finds.
func (s *SMPRun) Check(t TLV, fromInit bool, draws [][]byte) (problems []string) {
	bad := func(f string, a ...interface{}) { problems = append(problems, fmt.Sprintf(f, a...)) }
	want := map[uint16]int{2: 6, 7: 6, 3: 11, 4: 8, 5: 3}[t.Type]
	q, m, perr := SplitSMP(t)
	if perr != "" {
		bad("TLV %d: %s", t.Type, perr)
		return
	}
	if len(m) != want {
		bad("TLV %d carries %d MPIs, the specification says %d", t.Type, len(m), want)
		return
	}
	zkp := func(name string, c, d, g, pub *big.Int, ix byte) {
		// c = H(ix, g^d * pub^c)
		if SMPHash(ix, mulP(exp(g, d), exp(pub, c))).Cmp(c) != 0 {
			bad("%s is not H(%d, g^D * value^c): the zero-knowledge proof does not verify", name, ix)
		}
		if !inExp(d) {
			bad("the D value going with %s is not in [1, q)", name)
		}
	}
	switch t.Type {
	case 2, 7:
		*s = SMPRun{InitFP: s.InitFP, RespFP: s.RespFP, SSID: s.SSID, Secret: s.Secret}
		s.Stage = 1
		s.Question = q
		s.G2a, s.G3a = m[0], m[3]
		if !inGroup(s.G2a) || !inGroup(s.G3a) {
			bad("g2a / g3a outside [2, p-2]")
		}
		zkp("c2", m[1], m[2], G, s.G2a, 1)
		zkp("c3", m[4], m[5], G, s.G3a, 2)
		s.A2, s.A3 = FindExp(G, s.G2a, draws), FindExp(G, s.G3a, draws)
		if s.A2 == nil || s.A3 == nil {
			bad("g2a / g3a are not g1 raised to values drawn from the randomness source")
			return
		}
		// full re-derivation: c2 = H(1, g1^r2), D2 = r2 - a2*c2 mod q for a logged r2
		for k, pr := range [][3]*big.Int{{m[1], m[2], s.A2}, {m[4], m[5], s.A3}} {
			found := false
			for _, d := range draws {
				r := new(big.Int).SetBytes(d)
				if SMPHash(byte(1+k), cachedExp(G, r)).Cmp(pr[0]) == 0 && dOf(r, pr[2], pr[0]).Cmp(pr[1]) == 0 {
					found = true
					break
				}
			}
			if !found {
				bad("c%d, D%d are not H(%d, g1^r), r - a*c mod q for any r drawn from the randomness source", 2+k, 2+k, 1+k)
			}
		}
	case 3:
		if s.Stage != 1 || fromInit {
			bad("SMP2 out of sequence")
			return
		}
		s.Stage = 2
		s.G2b, s.G3b, s.Pb, s.Qb = m[0], m[3], m[6], m[7]
		for _, x := range []*big.Int{s.G2b, s.G3b, s.Pb, s.Qb} {
			if !inGroup(x) {
				bad("a group element of SMP2 is outside [2, p-2]")
			}
		}
		zkp("c2", m[1], m[2], G, s.G2b, 3)
		zkp("c3", m[4], m[5], G, s.G3b, 4)
		s.B2, s.B3 = FindExp(G, s.G2b, draws), FindExp(G, s.G3b, draws)
		if s.B2 == nil || s.B3 == nil {
			bad("g2b / g3b are not g1 raised to values drawn from the randomness source")
			return
		}
		s.G2, s.G3 = exp(s.G2a, s.B2), exp(s.G3a, s.B3)
		// cP = H(5, g3^D5 * Pb^cP, g1^D5 * g2^D6 * Qb^cP)
		cp, d5, d6 := m[8], m[9], m[10]
		if SMPHash(5, mulP(exp(s.G3, d5), exp(s.Pb, cp)), mulP(mulP(exp(G, d5), exp(s.G2, d6)), exp(s.Qb, cp))).Cmp(cp) != 0 {
			bad("cP of SMP2 does not verify")
		}
		if !inExp(d5) || !inExp(d6) {
			bad("D5 / D6 of SMP2 not in [1, q)")
		}
		// Pb = g3^r4, Qb = g1^r4 * g2^y with y the secret
		s.R4b = FindExp(s.G3, s.Pb, draws)
		if s.R4b == nil {
			bad("Pb is not g3^r4 for a drawn r4")
			return
		}
		y := SMPSecret(s.InitFP, s.RespFP, s.SSID[:], s.Secret)
		if mulP(exp(G, s.R4b), exp(s.G2, y)).Cmp(s.Qb) != 0 {
			bad("Qb is not g1^r4 * g2^y with y = SHA256(1, initiator fingerprint, responder fingerprint, ssid, secret)")
		}
	case 4:
		if s.Stage != 2 || !fromInit {
			bad("SMP3 out of sequence")
			return
		}
		s.Stage = 3
		s.Pa, s.Qa = m[0], m[1]
		ra := m[5]
		for _, x := range []*big.Int{s.Pa, s.Qa, ra} {
			if !inGroup(x) {
				bad("a group element of SMP3 is outside [2, p-2]")
			}
		}
		g2, g3 := exp(s.G2b, s.A2), exp(s.G3b, s.A3)
		if g2.Cmp(s.G2) != 0 || g3.Cmp(s.G3) != 0 {
			bad("internal: g2/g3 disagree between the two sides")
		}
		cp, d5, d6 := m[2], m[3], m[4]
		if SMPHash(6, mulP(exp(g3, d5), exp(s.Pa, cp)), mulP(mulP(exp(G, d5), exp(g2, d6)), exp(s.Qa, cp))).Cmp(cp) != 0 {
			bad("cP of SMP3 does not verify")
		}
		if !inExp(d5) || !inExp(d6) {
			bad("D5 / D6 of SMP3 not in [1, q)")
		}
		s.R4a = FindExp(g3, s.Pa, draws)
		if s.R4a == nil {
			bad("Pa is not g3^r4 for a drawn r4")
			return
		}
		x := SMPSecret(s.InitFP, s.RespFP, s.SSID[:], s.Secret)
		if mulP(exp(G, s.R4a), exp(g2, x)).Cmp(s.Qa) != 0 {
			bad("Qa is not g1^r4 * g2^x with x = SHA256(1, initiator fingerprint, responder fingerprint, ssid, secret)")
		}
		qaqb := mulP(s.Qa, inv(s.Qb))
		if exp(qaqb, s.A3).Cmp(ra) != 0 {
			bad("Ra is not (Qa/Qb)^a3")
		}
		cr, d7 := m[6], m[7]
		if SMPHash(7, mulP(exp(G, d7), exp(s.G3a, cr)), mulP(exp(qaqb, d7), exp(ra, cr))).Cmp(cr) != 0 {
			bad("cR of SMP3 does not verify")
		}
		if !inExp(d7) {
			bad("D7 of SMP3 not in [1, q)")
		}
	case 5:
		if s.Stage != 3 || fromInit {
			bad("SMP4 out of sequence")
			return
		}
		s.Stage = 4
		rb, cr, d7 := m[0], m[1], m[2]
		if !inGroup(rb) {
			bad("Rb outside [2, p-2]")
		}
		qaqb := mulP(s.Qa, inv(s.Qb))
		if exp(qaqb, s.B3).Cmp(rb) != 0 {
			bad("Rb is not (Qa/Qb)^b3")
		}
		if SMPHash(8, mulP(exp(G, d7), exp(s.G3b, cr)), mulP(exp(qaqb, d7), exp(rb, cr))).Cmp(cr) != 0 {
			bad("cR of SMP4 does not verify")
		}
		if !inExp(d7) {
			bad("D7 of SMP4 not in [1, q)")
		}
		// with equal secrets: Rab = Rb^a3 must equal Pa/Pb
		if exp(rb, s.A3).Cmp(mulP(s.Pa, inv(s.Pb))) != 0 {
			bad("equal secrets, but Rb^a3 differs from Pa/Pb")
		}
	}
	return
}
