//go:build verif

// Package verifref is an independent implementation of the parts of the OTR v2/v3
// specification that the checks need: wire codecs, key derivation, construction and
// verification of the key-exchange and data messages, and a small reference peer.
// It uses the Go standard library only and cannot import otr3 (otr3's harness imports it).
package verifref

import (
	"bytes"
	"crypto/aes"
	"crypto/cipher"
	"crypto/dsa"
	"crypto/hmac"
	"crypto/sha1"
	"crypto/sha256"
	"encoding/base64"
	"encoding/binary"
	"errors"
	"math/big"
)

// the 1536-bit MODP group of RFC 3526, generator 2
var P, _ = new(big.Int).SetString("FFFFFFFFFFFFFFFFC90FDAA22168C234C4C6628B80DC1CD129024E088A67CC74020BBEA63B139B22514A08798E3404DDEF9519B3CD3A431B302B0A6DF25F14374FE1356D6D51C245E485B576625E7EC6F44C42E9A637ED6B0BFF5CB6F406B7EDEE386BFB5A899FA5AE9F24117C4B1FE649286651ECE45B3DC2007CB8A163BF0598DA48361C55D39A69163FA8FD24CF5F83655D23DCA3AD961C62F356208552BB9ED529077096966D670C354E4ABC9804F1746C08CA237327FFFFFFFFFFFFFFFF", 16)
var G = big.NewInt(2)

const (
	TypeDHCommit  = 0x02
	TypeData      = 0x03
	TypeDHKey     = 0x0a
	TypeRevealSig = 0x11
	TypeSig       = 0x12
)

// ---------------------------------------------------------------------------
// codecs

func Word(v uint32) []byte {
	b := make([]byte, 4)
	binary.BigEndian.PutUint32(b, v)
	return b
}

func Short(v uint16) []byte {
	b := make([]byte, 2)
	binary.BigEndian.PutUint16(b, v)
	return b
}

func Data(b []byte) []byte { return append(Word(uint32(len(b))), b...) }

// MPI: 4-byte length, then the minimal big-endian representation (no leading zero bytes)
func MPI(x *big.Int) []byte { return Data(x.Bytes()) }

type Reader struct {
	B   []byte
	Bad bool
}

func (r *Reader) take(n int) []byte {
	if r.Bad || n < 0 || len(r.B) < n {
		r.Bad = true
		return nil
	}
	out := r.B[:n]
	r.B = r.B[n:]
	return out
}

func (r *Reader) Byte() byte {
	b := r.take(1)
	if b == nil {
		return 0
	}
	return b[0]
}

func (r *Reader) Short() uint16 {
	b := r.take(2)
	if b == nil {
		return 0
	}
	return binary.BigEndian.Uint16(b)
}

func (r *Reader) Word() uint32 {
	b := r.take(4)
	if b == nil {
		return 0
	}
	return binary.BigEndian.Uint32(b)
}

func (r *Reader) Data() []byte {
	n := r.Word()
	if r.Bad || uint64(n) > uint64(len(r.B)) {
		r.Bad = true
		return nil
	}
	return r.take(int(n))
}

func (r *Reader) MPI() *big.Int {
	d := r.Data()
	if r.Bad {
		return nil
	}
	return new(big.Int).SetBytes(d)
}

// ---------------------------------------------------------------------------
// envelope and header

// Unarmor decodes "?OTR:" base64 "."
func Unarmor(msg []byte) ([]byte, bool) {
	if !bytes.HasPrefix(msg, []byte("?OTR:")) || len(msg) < 6 || msg[len(msg)-1] != '.' {
		return nil, false
	}
	raw, err := base64.StdEncoding.DecodeString(string(msg[5 : len(msg)-1]))
	if err != nil {
		return nil, false
	}
	return raw, true
}

func Armor(raw []byte) []byte {
	return append(append([]byte("?OTR:"), base64.StdEncoding.EncodeToString(raw)...), '.')
}

type Header struct {
	Version          uint16
	Type             byte
	Sender, Receiver uint32 // v3 only
	Len              int
}

func ParseHeader(raw []byte) (Header, []byte, bool) {
	var h Header
	if len(raw) < 3 {
		return h, nil, false
	}
	h.Version = binary.BigEndian.Uint16(raw)
	h.Type = raw[2]
	switch h.Version {
	case 2:
		h.Len = 3
	case 3:
		if len(raw) < 11 {
			return h, nil, false
		}
		h.Sender = binary.BigEndian.Uint32(raw[3:])
		h.Receiver = binary.BigEndian.Uint32(raw[7:])
		h.Len = 11
	default:
		return h, nil, false
	}
	return h, raw[h.Len:], true
}

func (h Header) Bytes() []byte {
	out := append(Short(h.Version), h.Type)
	if h.Version == 3 {
		out = append(out, Word(h.Sender)...)
		out = append(out, Word(h.Receiver)...)
	}
	return out
}

// ---------------------------------------------------------------------------
// crypto helpers

func AESCTR(key []byte, iv [16]byte, data []byte) []byte {
	blk, err := aes.NewCipher(key)
	if err != nil {
		return nil
	}
	out := make([]byte, len(data))
	cipher.NewCTR(blk, iv[:]).XORKeyStream(out, data)
	return out
}

func hmac256(key, data []byte) []byte {
	m := hmac.New(sha256.New, key)
	m.Write(data)
	return m.Sum(nil)
}

func hmac1(key, data []byte) []byte {
	m := hmac.New(sha1.New, key)
	m.Write(data)
	return m.Sum(nil)
}

func h2(b byte, secbytes []byte) []byte {
	h := sha256.New()
	h.Write([]byte{b})
	h.Write(secbytes)
	return h.Sum(nil)
}

func h1(b byte, secbytes []byte) []byte {
	h := sha1.New()
	h.Write([]byte{b})
	h.Write(secbytes)
	return h.Sum(nil)
}

// ---------------------------------------------------------------------------
// key derivation

type AKEKeys struct {
	SSID                    [8]byte
	C, Cp, M1, M2, M1p, M2p []byte
}

// DeriveAKE: ssid, c, c', m1, m2, m1', m2' from the shared secret s
func DeriveAKE(s *big.Int) AKEKeys {
	sec := MPI(s)
	var k AKEKeys
	copy(k.SSID[:], h2(0x00, sec)[:8])
	cc := h2(0x01, sec)
	k.C, k.Cp = cc[:16], cc[16:]
	k.M1, k.M2, k.M1p, k.M2p = h2(0x02, sec), h2(0x03, sec), h2(0x04, sec), h2(0x05, sec)
	return k
}

type DataKeys struct {
	SendAES, RecvAES, SendMAC, RecvMAC, Extra []byte
}

// DeriveData: session keys as seen by the party whose public key is ourPub
func DeriveData(ourPub, theirPub, s *big.Int) DataKeys {
	sec := MPI(s)
	sendb, recvb := byte(0x02), byte(0x01) // low end
	if ourPub.Cmp(theirPub) > 0 {
		sendb, recvb = 0x01, 0x02 // high end
	}
	var k DataKeys
	k.SendAES = h1(sendb, sec)[:16]
	k.RecvAES = h1(recvb, sec)[:16]
	sm := sha1.Sum(k.SendAES)
	rm := sha1.Sum(k.RecvAES)
	k.SendMAC, k.RecvMAC = sm[:], rm[:]
	k.Extra = h2(0xff, sec)
	return k
}

// ---------------------------------------------------------------------------
// DSA public keys

type PubKey struct {
	P, Q, G, Y *big.Int
}

func (k PubKey) Bytes() []byte {
	out := Short(0)
	for _, v := range []*big.Int{k.P, k.Q, k.G, k.Y} {
		out = append(out, MPI(v)...)
	}
	return out
}

// Fingerprint: SHA-1 of the key without its type tag
func (k PubKey) Fingerprint() []byte {
	s := sha1.Sum(k.Bytes()[2:])
	return s[:]
}

func (k PubKey) Verify(digest []byte, r, s *big.Int) bool {
	pub := dsa.PublicKey{Parameters: dsa.Parameters{P: k.P, Q: k.Q, G: k.G}, Y: k.Y}
	return dsa.Verify(&pub, digest, r, s)
}

func readPub(r *Reader) (PubKey, bool) {
	if r.Short() != 0 {
		return PubKey{}, false
	}
	k := PubKey{r.MPI(), r.MPI(), r.MPI(), r.MPI()}
	return k, !r.Bad
}

// ---------------------------------------------------------------------------
// key-exchange messages

type DHCommit struct{ EncGx, HashGx []byte }

func ParseDHCommit(body []byte) (DHCommit, bool) {
	r := &Reader{B: body}
	m := DHCommit{r.Data(), r.Data()}
	return m, !r.Bad && len(r.B) == 0
}

func (m DHCommit) Body() []byte { return append(Data(m.EncGx), Data(m.HashGx)...) }

func ParseDHKey(body []byte) (*big.Int, bool) {
	r := &Reader{B: body}
	gy := r.MPI()
	return gy, !r.Bad && len(r.B) == 0
}

type RevealSig struct {
	R      []byte
	EncSig []byte
	MAC    []byte
}

func ParseRevealSig(body []byte) (RevealSig, bool) {
	r := &Reader{B: body}
	m := RevealSig{R: r.Data(), EncSig: r.Data()}
	m.MAC = r.take(20)
	return m, !r.Bad && len(r.B) == 0 && len(m.R) == 16
}

func (m RevealSig) Body() []byte {
	return append(append(Data(m.R), Data(m.EncSig)...), m.MAC...)
}

type Sig struct{ EncSig, MAC []byte }

func ParseSig(body []byte) (Sig, bool) {
	r := &Reader{B: body}
	m := Sig{EncSig: r.Data()}
	m.MAC = r.take(20)
	return m, !r.Bad && len(r.B) == 0
}

func (m Sig) Body() []byte { return append(Data(m.EncSig), m.MAC...) }

// XB is the decrypted signature block: pub, keyid, sig
type XB struct {
	Pub   PubKey
	KeyID uint32
	R, S  *big.Int
}

func OpenXB(key, encSig []byte) (XB, bool) {
	pt := AESCTR(key, [16]byte{}, encSig)
	r := &Reader{B: pt}
	pub, ok := readPub(r)
	if !ok {
		return XB{}, false
	}
	x := XB{Pub: pub, KeyID: r.Word()}
	sg := r.take(40)
	if r.Bad || len(r.B) != 0 {
		return XB{}, false
	}
	x.R, x.S = new(big.Int).SetBytes(sg[:20]), new(big.Int).SetBytes(sg[20:])
	return x, true
}

// MB: HMAC-SHA256(m1, gx, gy, pub, keyid) — the value that is signed
func MB(m1 []byte, first, second *big.Int, pub PubKey, keyID uint32) []byte {
	d := append(MPI(first), MPI(second)...)
	d = append(d, pub.Bytes()...)
	d = append(d, Word(keyID)...)
	return hmac256(m1, d)
}

// SigMAC: the 160-bit MAC over the encrypted signature as a DATA field
func SigMAC(m2, encSig []byte) []byte { return hmac256(m2, Data(encSig))[:20] }

// CheckCommit: the commit's hash and ciphertext belong to gx under r
func CheckCommit(c DHCommit, r []byte, gx *big.Int) bool {
	var iv [16]byte
	h := sha256.Sum256(MPI(gx))
	return bytes.Equal(h[:], c.HashGx) && bytes.Equal(AESCTR(r, iv, MPI(gx)), c.EncGx)
}

// ---------------------------------------------------------------------------
// data messages

type DataMsg struct {
	Hdr      Header
	Flags    byte
	SKeyID   uint32
	RKeyID   uint32
	Y        *big.Int
	Ctr      [8]byte
	Enc      []byte
	MAC      []byte
	Revealed []byte
	Auth     []byte // header + everything up to the MAC: what the MAC covers
}

func ParseData(raw []byte) (DataMsg, bool) {
	h, body, ok := ParseHeader(raw)
	if !ok || h.Type != TypeData {
		return DataMsg{}, false
	}
	r := &Reader{B: body}
	m := DataMsg{Hdr: h, Flags: r.Byte(), SKeyID: r.Word(), RKeyID: r.Word(), Y: r.MPI()}
	copy(m.Ctr[:], r.take(8))
	m.Enc = r.Data()
	if r.Bad {
		return m, false
	}
	m.Auth = raw[:len(raw)-len(r.B)]
	m.MAC = r.take(20)
	m.Revealed = r.Data()
	return m, !r.Bad && len(r.B) == 0
}

type TLV struct {
	Type  uint16
	Value []byte
}

// ParsePlain: text, NUL, TLVs
func ParsePlain(b []byte) (text []byte, tlvs []TLV, ok bool) {
	i := bytes.IndexByte(b, 0)
	if i < 0 {
		return b, nil, true
	}
	text = b[:i]
	r := &Reader{B: b[i+1:]}
	for len(r.B) > 0 {
		t := TLV{Type: r.Short()}
		n := r.Short()
		t.Value = r.take(int(n))
		if r.Bad {
			return text, tlvs, false
		}
		tlvs = append(tlvs, t)
	}
	return text, tlvs, true
}

func BuildPlain(text []byte, tlvs []TLV) []byte {
	out := append(append([]byte{}, text...), 0)
	for _, t := range tlvs {
		out = append(out, Short(t.Type)...)
		out = append(out, Short(uint16(len(t.Value)))...)
		out = append(out, t.Value...)
	}
	return out
}

func (m DataMsg) Decrypt(aesKey []byte) []byte {
	var iv [16]byte
	copy(iv[:], m.Ctr[:])
	return AESCTR(aesKey, iv, m.Enc)
}

func (m DataMsg) CheckMAC(macKey []byte) bool {
	return hmac.Equal(hmac1(macKey, m.Auth), m.MAC)
}

// BuildData assembles a complete data message
func BuildData(h Header, flags byte, skid, rkid uint32, y *big.Int, ctr uint64, plain []byte, k DataKeys, revealed []byte) []byte {
	var c8 [8]byte
	binary.BigEndian.PutUint64(c8[:], ctr)
	var iv [16]byte
	copy(iv[:], c8[:])
	auth := h.Bytes()
	auth = append(auth, flags)
	auth = append(auth, Word(skid)...)
	auth = append(auth, Word(rkid)...)
	auth = append(auth, MPI(y)...)
	auth = append(auth, c8[:]...)
	auth = append(auth, Data(AESCTR(k.SendAES, iv, plain))...)
	out := append(append([]byte{}, auth...), hmac1(k.SendMAC, auth)...)
	return append(out, Data(revealed)...)
}

var ErrBad = errors.New("verifref: malformed")
