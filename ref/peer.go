//go:build verif

package verifref

import (
	"bytes"
	"crypto/dsa"
	"crypto/sha256"
	"encoding/binary"
	"fmt"
	"io"
	"math/big"
	"strconv"
	"strings"
)

// Peer is a small OTR v2/v3 endpoint written from the specification: key exchange in both
// roles, data messages with the DH ratchet, TLVs (padding, disconnect, extra symmetric key;
// SMP TLVs are only counted). No maps, channels or pointers to shared state: a Peer can be
// copied by value-walking cloners.
type Peer struct {
	Version  uint16
	Rand     io.Reader
	Priv     *dsa.PrivateKey
	Tag      uint32
	PeerTag  uint32
	AKEState int // 0 none, 1 awaiting D-H Key, 2 awaiting Reveal Signature, 3 awaiting Signature

	X      *big.Int // our exponent of the exchange in progress
	GX     *big.Int // g^X
	R      []byte   // initiator's r
	Commit DHCommit // responder: the commit we answered
	Their  *big.Int // their public value of the exchange
	AKE    AKEKeys

	Encrypted bool
	Finished  bool
	PadFirst  bool // put a padding TLV in front of the other TLVs of every data message (any order is legal)
	SSID      [8]byte
	PeerKey   PubKey

	OurID    uint32 // id of our most recent DH key
	OurPrev  DHPair // key OurID-1
	OurCur   DHPair // key OurID
	TheirID  uint32
	TheirCur *big.Int
	TheirPrv *big.Int
	Ctrs     []PairCtr
	Used     []UsedMAC // receiving MAC keys that verified a message, by key pair
	ToReveal []byte

	Received  [][]byte
	ExtraKeys []ExtraKey
	SMPSeen   int
	Log       []string
	Frag      []byte
	FragK     int
	FragN     int
}

type DHPair struct {
	Priv, Pub *big.Int
}

type PairCtr struct {
	Our, Their uint32
	Send, Recv uint64
}

type UsedMAC struct {
	Our, Their uint32
	Key        []byte
}

type ExtraKey struct {
	Usage uint32
	Data  []byte
	Key   []byte
}

func (p *Peer) logf(format string, a ...interface{}) {
	p.Log = append(p.Log, fmt.Sprintf(format, a...))
}

func (p *Peer) rnd(n int) []byte {
	b := make([]byte, n)
	if _, err := io.ReadFull(p.Rand, b); err != nil {
		panic("verifref: randomness source failed")
	}
	return b
}

func (p *Peer) newDH() DHPair {
	x := new(big.Int).SetBytes(p.rnd(40))
	return DHPair{x, new(big.Int).Exp(G, x, P)}
}

func (p *Peer) Pub() PubKey {
	return PubKey{p.Priv.P, p.Priv.Q, p.Priv.G, p.Priv.Y}
}

func (p *Peer) header(t byte) Header {
	return Header{Version: p.Version, Type: t, Sender: p.Tag, Receiver: p.PeerTag}
}

func (p *Peer) wrap(t byte, body []byte) []byte {
	return Armor(append(p.header(t).Bytes(), body...))
}

func (p *Peer) Query() []byte { return []byte(fmt.Sprintf("?OTRv%d?", p.Version)) }

// StartAKE sends a D-H Commit message
func (p *Peer) StartAKE() [][]byte {
	dh := p.newDH()
	p.X, p.GX = dh.Priv, dh.Pub
	p.R = p.rnd(16)
	var iv [16]byte
	h := sha256.Sum256(MPI(p.GX))
	c := DHCommit{AESCTR(p.R, iv, MPI(p.GX)), h[:]}
	p.AKEState = 1
	return [][]byte{p.wrap(TypeDHCommit, c.Body())}
}

func inRange(v *big.Int) bool {
	return v != nil && v.Cmp(big.NewInt(2)) >= 0 && v.Cmp(new(big.Int).Sub(P, big.NewInt(2))) <= 0
}

func (p *Peer) sign(mb []byte) []byte {
	r, s, err := dsa.Sign(p.Rand, p.Priv, mb)
	if err != nil {
		panic(err)
	}
	out := make([]byte, 40)
	rb, sb := r.Bytes(), s.Bytes()
	copy(out[20-len(rb):], rb)
	copy(out[40-len(sb):], sb)
	return out
}

func (p *Peer) encSig(m1, c []byte, first, second *big.Int, keyID uint32) []byte {
	mb := MB(m1, first, second, p.Pub(), keyID)
	xb := p.Pub().Bytes()
	xb = append(xb, Word(keyID)...)
	xb = append(xb, p.sign(mb)...)
	return AESCTR(c, [16]byte{}, xb)
}

func (p *Peer) goEncrypted(ourAKE DHPair, their *big.Int, theirKeyID uint32, ssid [8]byte, peerKey PubKey) {
	p.Encrypted, p.Finished = true, false
	p.SSID, p.PeerKey = ssid, peerKey
	p.OurPrev, p.OurCur, p.OurID = ourAKE, p.newDH(), 2
	p.TheirCur, p.TheirPrv, p.TheirID = their, nil, theirKeyID
	p.Ctrs, p.Used, p.ToReveal = nil, nil, nil
	p.AKEState = 0
	p.logf("encrypted ssid=%x", ssid)
}

// Receive handles one wire message; it returns what to send back and the plaintext, if any
func (p *Peer) Receive(msg []byte) (out [][]byte, plain []byte) {
	s := string(msg)
	switch {
	case strings.HasPrefix(s, "?OTR|") || strings.HasPrefix(s, "?OTR,"):
		whole := p.fragment(msg)
		if whole == nil {
			return nil, nil
		}
		return p.Receive(whole)
	case strings.HasPrefix(s, "?OTR Error:"):
		p.logf("error message: %s", s)
		return nil, nil
	case strings.HasPrefix(s, "?OTR?") || strings.HasPrefix(s, "?OTRv"):
		if strings.Contains(s[4:strings.LastIndex(s, "?")+1], strconv.Itoa(int(p.Version))) {
			return p.StartAKE(), nil
		}
		return nil, nil
	case !strings.HasPrefix(s, "?OTR:"):
		return nil, msg
	}
	raw, ok := Unarmor(msg)
	if !ok {
		p.logf("bad armour")
		return nil, nil
	}
	h, body, ok := ParseHeader(raw)
	if !ok || h.Version != p.Version {
		p.logf("bad header / version")
		return nil, nil
	}
	if p.Version == 3 {
		if h.Sender < 0x100 || (h.Receiver != 0 && h.Receiver != p.Tag) {
			p.logf("message for another instance or malformed tags")
			return nil, nil
		}
		if p.PeerTag == 0 {
			p.PeerTag = h.Sender
		} else if p.PeerTag != h.Sender {
			p.logf("message from another instance")
			return nil, nil
		}
	}
	switch h.Type {
	case TypeDHCommit:
		c, ok := ParseDHCommit(body)
		if !ok {
			p.logf("bad commit")
			return nil, nil
		}
		if p.AKEState == 1 {
			// both sides committed: the higher hash wins
			mine := sha256.Sum256(MPI(p.GX))
			if bytes.Compare(mine[:], c.HashGx) > 0 {
				var iv [16]byte
				return [][]byte{p.wrap(TypeDHCommit, DHCommit{AESCTR(p.R, iv, MPI(p.GX)), mine[:]}.Body())}, nil
			}
		}
		if p.AKEState != 2 {
			dh := p.newDH()
			p.X, p.GX = dh.Priv, dh.Pub
		}
		p.Commit = c
		p.AKEState = 2
		return [][]byte{p.wrap(TypeDHKey, MPI(p.GX))}, nil
	case TypeDHKey:
		gy, ok := ParseDHKey(body)
		if !ok || !inRange(gy) {
			p.logf("bad D-H key")
			return nil, nil
		}
		if p.AKEState == 3 {
			if p.Their != nil && p.Their.Cmp(gy) == 0 {
				return [][]byte{p.revealSig()}, nil
			}
			return nil, nil
		}
		if p.AKEState != 1 {
			return nil, nil
		}
		p.Their = gy
		p.AKE = DeriveAKE(new(big.Int).Exp(gy, p.X, P))
		p.AKEState = 3
		return [][]byte{p.revealSig()}, nil
	case TypeRevealSig:
		if p.AKEState != 2 {
			return nil, nil
		}
		m, ok := ParseRevealSig(body)
		if !ok {
			p.logf("bad reveal signature")
			return nil, nil
		}
		var iv [16]byte
		gxb := AESCTR(m.R, iv, p.Commit.EncGx)
		hh := sha256.Sum256(gxb)
		rd := &Reader{B: gxb}
		gx := rd.MPI()
		if !bytes.Equal(hh[:], p.Commit.HashGx) || rd.Bad || len(rd.B) != 0 || !inRange(gx) {
			p.logf("commit does not open")
			return nil, nil
		}
		k := DeriveAKE(new(big.Int).Exp(gx, p.X, P))
		if !bytes.Equal(SigMAC(k.M2, m.EncSig), m.MAC) {
			p.logf("bad MAC on reveal signature")
			return nil, nil
		}
		xb, ok := OpenXB(k.C, m.EncSig)
		if !ok || xb.KeyID == 0 || !xb.Pub.Verify(MB(k.M1, gx, p.GX, xb.Pub, xb.KeyID), xb.R, xb.S) {
			p.logf("bad signature in reveal signature")
			return nil, nil
		}
		enc := p.encSig(k.M1p, k.Cp, p.GX, gx, 1)
		reply := p.wrap(TypeSig, Sig{enc, SigMAC(k.M2p, enc)}.Body())
		p.goEncrypted(DHPair{p.X, p.GX}, gx, xb.KeyID, k.SSID, xb.Pub)
		return [][]byte{reply}, nil
	case TypeSig:
		if p.AKEState != 3 {
			return nil, nil
		}
		m, ok := ParseSig(body)
		if !ok || !bytes.Equal(SigMAC(p.AKE.M2p, m.EncSig), m.MAC) {
			p.logf("bad MAC on signature")
			return nil, nil
		}
		xa, ok := OpenXB(p.AKE.Cp, m.EncSig)
		if !ok || xa.KeyID == 0 || !xa.Pub.Verify(MB(p.AKE.M1p, p.Their, p.GX, xa.Pub, xa.KeyID), xa.R, xa.S) {
			p.logf("bad signature in signature message")
			return nil, nil
		}
		p.goEncrypted(DHPair{p.X, p.GX}, p.Their, xa.KeyID, p.AKE.SSID, xa.Pub)
		return nil, nil
	case TypeData:
		return p.data(raw)
	}
	return nil, nil
}

func (p *Peer) revealSig() []byte {
	enc := p.encSig(p.AKE.M1, p.AKE.C, p.GX, p.Their, 1)
	return p.wrap(TypeRevealSig, RevealSig{p.R, enc, SigMAC(p.AKE.M2, enc)}.Body())
}

func (p *Peer) ctr(our, their uint32) *PairCtr {
	for i := range p.Ctrs {
		if p.Ctrs[i].Our == our && p.Ctrs[i].Their == their {
			return &p.Ctrs[i]
		}
	}
	p.Ctrs = append(p.Ctrs, PairCtr{Our: our, Their: their})
	return &p.Ctrs[len(p.Ctrs)-1]
}

func (p *Peer) data(raw []byte) (out [][]byte, plain []byte) {
	if !p.Encrypted {
		p.logf("data message outside a session")
		return nil, nil
	}
	m, ok := ParseData(raw)
	if !ok {
		p.logf("malformed data message")
		return nil, nil
	}
	var ours DHPair
	switch m.RKeyID {
	case p.OurID:
		ours = p.OurCur
	case p.OurID - 1:
		ours = p.OurPrev
	default:
		p.logf("unknown recipient key id %d", m.RKeyID)
		return nil, nil
	}
	var theirs *big.Int
	switch {
	case m.SKeyID == p.TheirID:
		theirs = p.TheirCur
	case m.SKeyID == p.TheirID-1 && p.TheirPrv != nil:
		theirs = p.TheirPrv
	default:
		p.logf("unknown sender key id %d", m.SKeyID)
		return nil, nil
	}
	if ours.Priv == nil || m.SKeyID == 0 {
		return nil, nil
	}
	k := DeriveData(ours.Pub, theirs, new(big.Int).Exp(theirs, ours.Priv, P))
	// as receiver the MAC key is our receiving one
	if !m.CheckMAC(k.RecvMAC) {
		p.logf("bad MAC on data message")
		return nil, nil
	}
	c := p.ctr(m.RKeyID, m.SKeyID)
	cv := binary.BigEndian.Uint64(m.Ctr[:])
	if cv <= c.Recv {
		p.logf("counter did not increase")
		return nil, nil
	}
	c.Recv = cv
	if !inRange(m.Y) {
		p.logf("next D-H key out of range")
		return nil, nil
	}
	p.Used = append(p.Used, UsedMAC{m.RKeyID, m.SKeyID, k.RecvMAC})
	text, tlvs, ok := ParsePlain(m.Decrypt(k.RecvAES))
	if !ok {
		p.logf("malformed plaintext")
		return nil, nil
	}
	// ratchet
	if m.RKeyID == p.OurID {
		p.forgetOur(p.OurID - 1)
		p.OurPrev, p.OurCur, p.OurID = p.OurCur, p.newDH(), p.OurID+1
	}
	if m.SKeyID == p.TheirID {
		p.forgetTheir(p.TheirID - 1)
		p.TheirPrv, p.TheirCur, p.TheirID = p.TheirCur, m.Y, p.TheirID+1
	}
	for _, t := range tlvs {
		switch {
		case t.Type == 1:
			p.Encrypted, p.Finished = false, true
			p.logf("peer disconnected")
		case t.Type >= 2 && t.Type <= 7:
			p.SMPSeen++
		case t.Type == 8 && len(t.Value) >= 4:
			p.ExtraKeys = append(p.ExtraKeys, ExtraKey{binary.BigEndian.Uint32(t.Value), append([]byte{}, t.Value[4:]...), k.Extra})
		}
	}
	if len(text) > 0 {
		plain = append([]byte{}, text...)
		p.Received = append(p.Received, plain)
	}
	return nil, plain
}

func (p *Peer) forgetOur(id uint32) {
	var keep []UsedMAC
	for _, u := range p.Used {
		if u.Our == id {
			p.ToReveal = append(p.ToReveal, u.Key...)
		} else {
			keep = append(keep, u)
		}
	}
	p.Used = keep
}

func (p *Peer) forgetTheir(id uint32) {
	var keep []UsedMAC
	for _, u := range p.Used {
		if u.Their == id {
			p.ToReveal = append(p.ToReveal, u.Key...)
		} else {
			keep = append(keep, u)
		}
	}
	p.Used = keep
}

// Send builds a data message with the text and TLVs
func (p *Peer) Send(text []byte, tlvs ...TLV) [][]byte {
	if !p.Encrypted {
		return nil
	}
	k := DeriveData(p.OurPrev.Pub, p.TheirCur, new(big.Int).Exp(p.TheirCur, p.OurPrev.Priv, P))
	c := p.ctr(p.OurID-1, p.TheirID)
	c.Send++
	flags := byte(0)
	if len(text) == 0 {
		flags = 1
	}
	if p.PadFirst {
		tlvs = append([]TLV{{Type: 0, Value: make([]byte, 7)}}, tlvs...)
	}
	raw := BuildData(p.header(TypeData), flags, p.OurID-1, p.TheirID, p.OurCur.Pub, c.Send, BuildPlain(text, tlvs), k, p.ToReveal)
	p.ToReveal = nil
	return [][]byte{Armor(raw)}
}

// ExtraKeyFor returns the extra symmetric key that goes with the next message we send
func (p *Peer) ExtraKeyFor() []byte {
	return DeriveData(p.OurPrev.Pub, p.TheirCur, new(big.Int).Exp(p.TheirCur, p.OurPrev.Priv, P)).Extra
}

func (p *Peer) End() [][]byte {
	if !p.Encrypted {
		p.Finished = false
		return nil
	}
	out := p.Send(nil, TLV{Type: 1})
	p.Encrypted, p.Finished = false, false
	return out
}

// fragment reassembly per the specification
func (p *Peer) fragment(msg []byte) []byte {
	s := string(msg)
	if strings.HasPrefix(s, "?OTR|") {
		parts := strings.SplitN(s[5:], ",", 2)
		tags := strings.Split(parts[0], "|")
		if len(parts) != 2 || len(tags) != 2 {
			return nil
		}
		snd, e1 := strconv.ParseUint(tags[0], 16, 32)
		rcv, e2 := strconv.ParseUint(tags[1], 16, 32)
		if e1 != nil || e2 != nil || (rcv != 0 && uint32(rcv) != p.Tag) || (p.PeerTag != 0 && uint32(snd) != p.PeerTag) {
			return nil
		}
		s = parts[1]
	} else {
		s = s[5:]
	}
	f := strings.Split(s, ",")
	if len(f) != 4 {
		return nil
	}
	k, e1 := strconv.Atoi(f[0])
	n, e2 := strconv.Atoi(f[1])
	if e1 != nil || e2 != nil || k == 0 || n == 0 || k > n {
		return nil
	}
	switch {
	case k == 1:
		p.Frag, p.FragK, p.FragN = []byte(f[2]), 1, n
	case n == p.FragN && k == p.FragK+1:
		p.Frag, p.FragK = append(p.Frag, f[2]...), k
	default:
		p.Frag, p.FragK, p.FragN = nil, 0, 0
	}
	if p.FragN > 0 && p.FragK == p.FragN {
		w := p.Frag
		p.Frag, p.FragK, p.FragN = nil, 0, 0
		return w
	}
	return nil
}
