// gen builds the overlay that places the harness inside package otr3 of the
// repository's current working tree, plus generated glue (list of package-level
// variables). Nothing under /repo is written.
package main

import (
	"encoding/json"
	"flag"
	"fmt"
	"go/ast"
	"go/parser"
	"go/token"
	"os"
	"path/filepath"
	"sort"
	"strings"
)

func main() {
	repo := flag.String("repo", "/repo", "repository root")
	harness := flag.String("harness", "/verif/harness", "harness sources")
	out := flag.String("out", "/verif/.build", "output directory")
	flag.Parse()
	if err := os.MkdirAll(*out, 0o755); err != nil {
		fatal(err)
	}
	replace := map[string]string{}
	hs, _ := filepath.Glob(filepath.Join(*harness, "*.go"))
	for _, h := range hs {
		replace[filepath.Join(*repo, "zz_verif_"+filepath.Base(h))] = h
	}
	// the independent reference implementation becomes the sub-package github.com/coyim/otr3/verifref
	refDir := filepath.Join(filepath.Dir(*harness), "ref")
	rs, _ := filepath.Glob(filepath.Join(refDir, "*.go"))
	for _, f := range rs {
		replace[filepath.Join(*repo, "verifref", filepath.Base(f))] = f
	}
	// package-level variables of package otr3 (non-test files)
	fset := token.NewFileSet()
	files, _ := filepath.Glob(filepath.Join(*repo, "*.go"))
	var vars []string
	for _, f := range files {
		if strings.HasSuffix(f, "_test.go") || strings.HasPrefix(filepath.Base(f), "zz_verif_") {
			continue
		}
		af, err := parser.ParseFile(fset, f, nil, parser.ParseComments)
		if err != nil {
			fatal(err)
		}
		if af.Name.Name != "otr3" {
			continue
		}
		if hasBuildIgnore(af) {
			continue
		}
		for _, d := range af.Decls {
			gd, ok := d.(*ast.GenDecl)
			if !ok || gd.Tok != token.VAR {
				continue
			}
			for _, s := range gd.Specs {
				vs := s.(*ast.ValueSpec)
				for _, n := range vs.Names {
					if n.Name != "_" {
						vars = append(vars, n.Name)
					}
				}
			}
		}
	}
	sort.Strings(vars)
	if len(vars) == 0 {
		fatal(fmt.Errorf("no package-level variables found in %s", *repo))
	}
	var b strings.Builder
	b.WriteString("//go:build verif\n\npackage otr3\n\n// generated from the working tree: every package-level variable of package otr3\nvar verifPkgVars = []verifPkgVar{\n")
	for _, v := range vars {
		fmt.Fprintf(&b, "\t{%q, &%s},\n", v, v)
	}
	b.WriteString("}\n")
	gen := filepath.Join(*out, "pkgvars.go")
	if err := os.WriteFile(gen, []byte(b.String()), 0o644); err != nil {
		fatal(err)
	}
	replace[filepath.Join(*repo, "zz_verif_gen_pkgvars.go")] = gen
	js, _ := json.MarshalIndent(map[string]interface{}{"Replace": replace}, "", " ")
	if err := os.WriteFile(filepath.Join(*out, "overlay.json"), js, 0o644); err != nil {
		fatal(err)
	}
}

func hasBuildIgnore(f *ast.File) bool {
	for _, cg := range f.Comments {
		if cg.Pos() > f.Package {
			break
		}
		for _, c := range cg.List {
			if strings.HasPrefix(c.Text, "//go:build") && strings.Contains(c.Text, "ignore") {
				return true
			}
		}
	}
	return false
}

func fatal(err error) {
	fmt.Fprintln(os.Stderr, "gen:", err)
	os.Exit(2)
}
