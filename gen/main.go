// gen builds the overlay that places the harness inside package otr3 of the
// repository's current working tree, plus generated glue (list of package-level
// variables). Nothing under /repo is written.
package main

import (
	"encoding/json"
	"flag"
	"fmt"
	"go/ast"
	"go/parser"
	"go/printer"
	"go/token"
	"os"
	"path/filepath"
	"sort"
	"strings"
)

func main() {
	repo := flag.String("repo", "/repo", "repository root")
	harness := flag.String("harness", "/verif/harness", "harness sources")
	out := flag.String("out", "/verif/.build", "output directory")
	flag.Parse()
	if err := os.MkdirAll(*out, 0o755); err != nil {
		fatal(err)
	}
	replace := map[string]string{}
	hs, _ := filepath.Glob(filepath.Join(*harness, "*.go"))
	for _, h := range hs {
		replace[filepath.Join(*repo, "zz_verif_"+filepath.Base(h))] = h
	}
	// the independent reference implementation becomes the sub-package github.com/coyim/otr3/verifref
	refDir := filepath.Join(filepath.Dir(*harness), "ref")
	rs, _ := filepath.Glob(filepath.Join(refDir, "*.go"))
	for _, f := range rs {
		replace[filepath.Join(*repo, "verifref", filepath.Base(f))] = f
	}
	// package-level variables of package otr3 (non-test files)
	fset := token.NewFileSet()
	files, _ := filepath.Glob(filepath.Join(*repo, "*.go"))
	var vars []string
	parsed := map[string]*ast.File{}
	pkgSpecs := map[*ast.ValueSpec]bool{}
	for _, f := range files {
		if strings.HasSuffix(f, "_test.go") || strings.HasPrefix(filepath.Base(f), "zz_verif_") {
			continue
		}
		af, err := parser.ParseFile(fset, f, nil, parser.ParseComments)
		if err != nil {
			fatal(err)
		}
		if af.Name.Name != "otr3" {
			continue
		}
		if hasBuildIgnore(af) {
			continue
		}
		parsed[f] = af
		for _, d := range af.Decls {
			gd, ok := d.(*ast.GenDecl)
			if !ok || gd.Tok != token.VAR {
				continue
			}
			for _, s := range gd.Specs {
				vs := s.(*ast.ValueSpec)
				pkgSpecs[vs] = true
				for _, n := range vs.Names {
					if n.Name != "_" {
						vars = append(vars, n.Name)
					}
				}
			}
		}
	}
	sort.Strings(vars)
	if len(vars) == 0 {
		fatal(fmt.Errorf("no package-level variables found in %s", *repo))
	}
	var b strings.Builder
	b.WriteString("//go:build verif\n\npackage otr3\n\n// generated from the working tree: every package-level variable of package otr3\nvar verifPkgVars = []verifPkgVar{\n")
	for _, v := range vars {
		fmt.Fprintf(&b, "\t{%q, &%s},\n", v, v)
	}
	b.WriteString("}\n")
	gen := filepath.Join(*out, "pkgvars.go")
	if err := os.WriteFile(gen, []byte(b.String()), 0o644); err != nil {
		fatal(err)
	}
	replace[filepath.Join(*repo, "zz_verif_gen_pkgvars.go")] = gen
	js, _ := json.MarshalIndent(map[string]interface{}{"Replace": replace}, "", " ")
	if err := os.WriteFile(filepath.Join(*out, "overlay.json"), js, 0o644); err != nil {
		fatal(err)
	}
	// second overlay (C20 only): the same, with every source file of package otr3 replaced by a copy in which a call
	// verifPoint() is the first statement of every function and verifAccess() precedes every statement that names a
	// package-level variable. The copies live under the output directory; /repo is not written.
	names := map[string]bool{}
	for _, v := range vars {
		names[v] = true
	}
	ptsDir := filepath.Join(*out, "pts")
	os.RemoveAll(ptsDir)
	if err := os.MkdirAll(ptsDir, 0o755); err != nil {
		fatal(err)
	}
	replace2 := map[string]string{}
	for k, v := range replace {
		replace2[k] = v
	}
	nFuncs, nAccess := 0, 0
	for f, af := range parsed {
		a, b := instrument(af, names, pkgSpecs)
		nFuncs += a
		nAccess += b
		dst := filepath.Join(ptsDir, filepath.Base(f))
		w, err := os.Create(dst)
		if err != nil {
			fatal(err)
		}
		if err := printer.Fprint(w, fset, af); err != nil {
			fatal(err)
		}
		w.Close()
		replace2[f] = dst
	}
	js2, _ := json.MarshalIndent(map[string]interface{}{"Replace": replace2}, "", " ")
	if err := os.WriteFile(filepath.Join(*out, "overlay-pts.json"), js2, 0o644); err != nil {
		fatal(err)
	}
	os.WriteFile(filepath.Join(*out, "pts-stats.txt"), []byte(fmt.Sprintf("functions=%d access_statements=%d\n", nFuncs, nAccess)), 0o644)
}

func callStmt(name string) ast.Stmt {
	return &ast.ExprStmt{X: &ast.CallExpr{Fun: ast.NewIdent(name)}}
}

// refersToPkgVar: does the node name a package-level variable (selectors' field names and shadowing locals excluded)?
func refersToPkgVar(n ast.Node, names map[string]bool, pkgSpecs map[*ast.ValueSpec]bool) bool {
	found := false
	var visit func(n ast.Node) bool
	visit = func(n ast.Node) bool {
		if found {
			return false
		}
		switch x := n.(type) {
		case *ast.SelectorExpr:
			ast.Inspect(x.X, visit)
			return false
		case *ast.KeyValueExpr:
			if _, isIdent := x.Key.(*ast.Ident); !isIdent {
				ast.Inspect(x.Key, visit)
			}
			ast.Inspect(x.Value, visit)
			return false
		case *ast.FuncLit:
			return false // its body gets its own points
		case *ast.BlockStmt:
			return false // nested blocks get their own points
		case *ast.Ident:
			if !names[x.Name] {
				return false
			}
			if x.Obj == nil {
				found = true // declared in another file of the package
				return false
			}
			if vs, ok := x.Obj.Decl.(*ast.ValueSpec); ok && pkgSpecs[vs] {
				found = true
			}
			return false
		}
		return true
	}
	ast.Inspect(n, visit)
	return found
}

func instrument(af *ast.File, names map[string]bool, pkgSpecs map[*ast.ValueSpec]bool) (nFuncs, nAccess int) {
	rewrite := func(list []ast.Stmt) []ast.Stmt {
		var out []ast.Stmt
		for _, st := range list {
			probe := ast.Node(st)
			switch x := st.(type) {
			case *ast.IfStmt:
				probe = &ast.IfStmt{Init: x.Init, Cond: x.Cond, Body: &ast.BlockStmt{}}
			case *ast.ForStmt:
				probe = &ast.ForStmt{Init: x.Init, Cond: x.Cond, Post: x.Post, Body: &ast.BlockStmt{}}
			case *ast.RangeStmt:
				probe = &ast.ExprStmt{X: x.X}
			case *ast.SwitchStmt:
				probe = &ast.SwitchStmt{Init: x.Init, Tag: x.Tag, Body: &ast.BlockStmt{}}
			case *ast.LabeledStmt:
				probe = &ast.BlockStmt{}
			}
			if refersToPkgVar(probe, names, pkgSpecs) {
				out = append(out, callStmt("verifAccess"))
				nAccess++
			}
			out = append(out, st)
		}
		return out
	}
	ast.Inspect(af, func(n ast.Node) bool {
		switch x := n.(type) {
		case *ast.FuncDecl:
			if x.Body != nil {
				x.Body.List = append([]ast.Stmt{callStmt("verifPoint")}, x.Body.List...)
				nFuncs++
			}
		case *ast.FuncLit:
			x.Body.List = append([]ast.Stmt{callStmt("verifPoint")}, x.Body.List...)
			nFuncs++
		}
		return true
	})
	// positions of the inserted calls are unknown to the printer: keep only the comments in front of the package
	// clause (build constraints), so that none is printed into the middle of an inserted call
	var keep []*ast.CommentGroup
	for _, cg := range af.Comments {
		if cg.End() < af.Package {
			keep = append(keep, cg)
		}
	}
	af.Comments = keep
	caseBodies := map[*ast.BlockStmt]bool{}
	ast.Inspect(af, func(n ast.Node) bool {
		switch x := n.(type) {
		case *ast.SwitchStmt:
			caseBodies[x.Body] = true
		case *ast.TypeSwitchStmt:
			caseBodies[x.Body] = true
		case *ast.SelectStmt:
			caseBodies[x.Body] = true
		}
		return true
	})
	ast.Inspect(af, func(n ast.Node) bool {
		switch x := n.(type) {
		case *ast.BlockStmt:
			if caseBodies[x] {
				return true // a list of case clauses, not of statements
			}
			x.List = rewrite(x.List)
		case *ast.CaseClause:
			x.Body = rewrite(x.Body)
		case *ast.CommClause:
			x.Body = rewrite(x.Body)
		}
		return true
	})
	return
}

func hasBuildIgnore(f *ast.File) bool {
	for _, cg := range f.Comments {
		if cg.Pos() > f.Package {
			break
		}
		for _, c := range cg.List {
			if strings.HasPrefix(c.Text, "//go:build") && strings.Contains(c.Text, "ignore") {
				return true
			}
		}
	}
	return false
}

func fatal(err error) {
	fmt.Fprintln(os.Stderr, "gen:", err)
	os.Exit(2)
}
