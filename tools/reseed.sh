#!/bin/bash
# tools/reseed.sh — re-run every kept seeded change (seeded/<id>[-n]/) against the current checks, in a scratch copy
# of /verif (so that nothing here is disturbed), and copy the refreshed meta.json files back.
set -u
SCR=${1:-/tmp/verif-reseed}
rm -rf "$SCR"; mkdir -p "$SCR"
rsync -a --exclude .git --exclude bin --exclude .build --exclude replays /verif/ "$SCR/"
cp -r /verif/seeded "$SCR/seeded-src"
cd "$SCR"
for d in $(ls seeded-src | grep -E '^C[0-9]+(-[0-9]+)?$' | sort); do
  id=${d%%-*}; tag=""; [ "$d" != "$id" ] && tag="-${d#*-}"
  others=$(python3 -c "import json,sys; m=json.load(open('seeded-src/$d/meta.json')); print(' '.join(k for k in sorted(m.get('checks',{})) if k!='$id'))")
  echo "=== $d ($id $others)"
  VROOT="$SCR" SEEDSRC="$SCR/seeded-src" SEEDSRCTAG="$tag" SEEDTAG="$tag" "$SCR/tools/seedeval.sh" $id $others 2>&1 | grep -E "^  (compiles|check)|missing|apply" | grep -v "git worktree" | cut -c1-220
  cp "$SCR/seeded/$d/meta.json" "/verif/seeded/$d/meta.json"
done
rm -rf "$SCR"
