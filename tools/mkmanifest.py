#!/usr/bin/env python3
"""Generates /verif/MANIFEST.json from the table below (kept in one place so it stays valid)."""
import json, os
ROOT = os.path.dirname(os.path.dirname(os.path.abspath(__file__)))
ALL = ["C%02d" % i for i in range(1, 21)]
TRUST = ("harness overlay (package-internal state access, reflective clone/hash), deterministic per-principal DRBG, "
         "two-valued virtual clock; Go toolchain and crypto standard library")
CHECKS = {
 "C04": dict(cat="model_checking", ref="§3 C04",
   text="Explicit-state exploration of the real Send/Receive code: every interleaving of sends and deliveries of two parties over two FIFO queues up to a per-side send budget, with fragmentation and side traffic (heartbeat via clock tick, extra-key request, one SMP run), under OTRv2 and OTRv3; in every state the delivered list must be a prefix of the peer's sent list and equal at quiescence.",
   tech="explicit-state model checking of the implementation (clone-on-branch DFS, exact state hashing)"),
 "C07": dict(cat="model_checking", ref="§3 C07",
   text="Complete search of the AKE state graph on a reliable FIFO network: for every policy/version pair sharing a version, every start state (plaintext, encrypted refresh, one side finished), every trigger kind (query, whitespace tag, error restart, Send under required encryption) and every initiator pattern (A, B, one first and the other at any later moment incl. simultaneously), all interleavings of deliveries are executed on the real conversations until quiescence; at quiescence both must be encrypted in one common (new) session and a probe text must be readable both ways.",
   tech="explicit-state model checking of the implementation (all delivery interleavings to quiescence)"),
 "C05": dict(cat="model_checking", ref="§3 C05",
   text="Explicit-state exploration with a recording network that may reorder and duplicate (deviation bound D), optional SMP run and End()+re-AKE: in every distinct reachable state every data message that was accepted before (whole fragment stream) is re-delivered to a clone of its receiver and must yield no plaintext, no SMP/security/key event and no reply other than an OTR error; on every path each sent text is delivered at most once.",
   tech="explicit-state model checking of the implementation with replay probes on cloned states"),
 "C18": dict(cat="model_checking", ref="§3 C18",
   text="All sequences of lifecycle operations of both sides (query, Send, End, injected error report, clock tick) within an event budget, interleaved with every FIFO delivery order, from plaintext and from sessions with history, under several policy sets; a lock-step reference checks the legal IsEncrypted transitions and their triggers, the exact security events per transition, refusal of Send after the peer's disconnect, and a transmission ledger built by opening every emitted data message.",
   tech="explicit-state model checking of the implementation against a lock-step lifecycle/ledger reference model"),
 "C14": dict(cat="model_checking", ref="§3 C14",
   text="(a) Exhaustive grid: chosen message lengths (incl. > 65535 bytes) × every fragment size 0..65535 × both header formats; pieces are checked for size, parsed and reassembled by an independent implementation of the fragment format and fed to a real receiver which must process exactly the original, exactly once, at the last piece. (b) Complete state-graph search over an alphabet of next/restart/wrong-total/illegal-index/non-numeric/garbage/foreign-instance fragments and whole messages (error-message payloads and real data messages), the implementation compared at every step with the specification's reassembler.",
   tech="explicit-state model checking against the specification's reassembler + exhaustive bounded enumeration of (length, size) pairs"),
 "C13": dict(cat="exploration", ref="§3 C13",
   text="Exhaustive bounded input enumeration against a crash / hang / allocation / still-usable oracle, executed in worker subprocesses with an address-space limit: all short byte strings over a boundary alphabet into every binary parser, all short strings over the s-expression alphabet into the key-file readers, every truncation / deletion / length-word substitution of valid key serialisations and of a libotr key file, 15 conversation states × structure-aware mutations of every genuine message kind, marker and fragment-header variants and authenticated-but-malicious TLV payloads into Receive, and every index at which a read of the randomness source fails or is short.",
   tech="exhaustive bounded enumeration of inputs and fault points (each case one execution of the real code under recover, allocation metering and a process-level watchdog)"),
 "C17": dict(cat="exploration", ref="§3 C17",
   text="Exhaustive small-domain enumeration (full products of boundary values, no random generation) of every protocol structure: value→bytes→value equality, length prefixes equal to content lengths, minimal MPIs, bytes→value→bytes on every input the parsers accept from the C13 byte-string domain; DSA keys derived to hit odd hex digit counts, short x / y and embedded zero bytes: wire form, fingerprint against an independent SHA-1 over the specification's layout, key-file export→import (both importers) with every short account name over a 12-character alphabet; TLV payloads too long for the 16-bit length through the public API.",
   tech="exhaustive bounded enumeration of values (round-trip oracle on the real serialisers/parsers)"),
 "C16": dict(cat="model_checking", ref="§3 C16",
   text="(a) For every pair of policy sets (quick: 17×17 representatives, thorough: all version sets × all 16 flag combinations) and every offer form (literal queries incl. unknown versions and v1, the peer's own query, whitespace tags for every version set at start/middle/end, direct v2/v3 DH-Commit, v1 key exchange) the exchange is executed to quiescence on the real conversations and compared step by step with the reference model chosen = max(offered ∩ mine), session ⇔ chosen allowed by the peer; the version field of every emitted message is checked against the emitter's policy. (b) Every text of length ≤ 8/9 over {a, space, tab, ?} and every concatenation of ≤ 3 atoms around the whitespace tag, minus texts containing an OTR marker, must pass Send→Receive byte-exact under 4×3 policy combinations, OTR-disabled included.",
   tech="exhaustive enumeration of configurations and inputs, each trace executed on the implementation and compared with a reference negotiation model"),
 "C15": dict(cat="model_checking", ref="§3 C15",
   text="Receiver in each state of an honest v3 exchange (fresh, after every handshake step in both roles, encrypted, after traffic, finished) × every sequence of ≤ 2 messages from {DH-Commit, DH-Key, Reveal-Sig, Sig, data, fragment} × 6 sender tags × 4 receiver tags, built from genuine traffic with rewritten tags; a lock-step reference model of the tag binding classifies each message (ours / foreign / malformed) and the implementation must give no plaintext, no reply (an OTR error only for malformed ones), an unchanged state hash and an unchanged binding; single hostile messages are also followed by the genuine continuation and compared differentially with the run without them. Own-tag generation under every scripted answer sequence ≤ 3 of the randomness source, and ExtractInstanceTags on every message and fragment built.",
   tech="exhaustive enumeration of message sequences executed on the implementation in lock-step with a reference binding model (state-hash and differential-continuation oracles)"),
 "C06": dict(cat="model_checking", ref="§3 C06",
   text="80 conversation states generated from honest runs (every handshake step in both roles, rotations, data in flight, every SMP step, every step of a refresh while encrypted, finished; v2 and v3) × rejected inputs derived from genuine traffic (byte flips, truncations, extension, version/tag changes, counter/key-id/flag/next-DH substitutions with the MAC left alone, replays of the whole history, messages of the previous session, reflected messages, garbage). Differential oracle without hand-written expectations: the exact state hash is unchanged, or else seven genuine continuations (pending traffic, text both ways, SMP both ways, peer query now / after the ignore window / before pending traffic, End) produce identical observable transcripts on clones with and without the rejected input.",
   tech="exhaustive enumeration of (state, rejected input) pairs on the implementation with an exact-state / differential-continuation oracle"),
 "C02": dict(cat="model_checking", ref="§3 C02",
   text="Session states at several ratchet positions and in a second session (v2, v3) × every kind of data message in flight × single deviations: every raw byte position × three xor masks, every truncation length, extensions inside and after the authenticated part, base64-level substitutions, and field substitutions (key ids, counter, next DH, flag, ciphertext) with the MAC left alone and recomputed under every MAC key disclosed on the wire so far and unrelated keys — each delivered to a clone of the receiver and judged by a reference verdict (authentic ⇔ header, authenticated body and MAC byte-identical): non-authentic ⇒ no plaintext, no reply, no TLV effect, states unchanged; authentic ⇒ delivered exactly.",
   tech="exhaustive enumeration of single-deviation forgeries per (state, message) executed on cloned receivers"),
 "C01": dict(cat="model_checking", ref="§3 C01",
   text="(A) An attacker that is a full protocol participant (valid MACs, own DSA key; toolbox built from the package's primitives) plays every variant {legitimate, X_B carrying V's / B's / the victim's key signed by the attacker, key id 0, trailing bytes, DH value 0, 1, p-1, p, p+1, g^m+p, replayed final message} as initiator and as responder against a victim in plaintext or in a session with B, v2 and v3. (B) Explicit-state exploration of an honest exchange (from plaintext and as refresh) under a network that within a deviation budget drops, duplicates, reorders, replays a recorded earlier session or mutates the head message, with all delivery interleavings. After every step, for every honest party that is encrypted: the reported peer key belongs to a party whose randomness source generated the in-range DH value of the session, what was reported at establishment (key, SSID, highlight) is still reported, and two honest parties of the same exchange agree (SSID, complementary halves, fingerprints, mutual readability).",
   tech="explicit-state model checking of the implementation under a bounded-deviation network + exhaustive enumeration of attacker-built handshakes"),
 "C11": dict(cat="model_checking", ref="§3 C11",
   text="Honest world: for every secret pair (empty, equal, case / last-bit / NUL-suffix / prefix differences, 1000-byte, binary) × question × initiator × version, explicit-state exploration of all interleavings of the SMP steps, the answer, chat texts either way (key rotation) and a clock tick, with one or two back-to-back runs: success on both sides iff the secrets are byte-equal, the mismatch reported on the right sides, the secret asked for once per run, no text lost. Relay world: two separately keyed sessions with a relay forwarding every SMP TLV (attacker key, and the same identities on both sessions so that only the SSID differs): never success, each run reaching a verdict.",
   tech="explicit-state model checking of the implementation (SMP interleavings) + exhaustive enumeration of relay configurations"),
 "C12": dict(cat="model_checking", ref="§3 C12",
   text="Victim in every SMP state in both roles (v2, v3); deviations delivered correctly authenticated through a clone of its peer: every MPI field of the genuine next message replaced by 14 boundary values, miscounts, bad length prefixes, truncations, question variants, duplicates, aborts before/after, well-formed messages of another run out of sequence; a malicious prover who recomputes the proofs over degenerate group elements (unit elements with forged SMP3/SMP4, Pb=1 Qb=0, g2a=0, g2a=p-1); explicit-state exploration of all sequences of foreign SMP messages and user calls (start, answer, abort, End). Oracle: no panic, never success, and afterwards an abort followed by a fresh honest run with equal secrets (initiated by either side) succeeds on both sides.",
   tech="exhaustive enumeration of authenticated deviant SMP payloads per state + explicit-state exploration of message/call sequences, all on the real state machine"),
 "C09": dict(cat="model_checking", ref="§3 C09",
   text="All interleavings of Send/deliver of two parties (per-side budgets incl. one-directional streams, optional refresh while encrypted). The monitor recomputes every receiving MAC key each party can form. Safety on every emitted data message: each disclosed value is a receiving MAC key of the discloser and, on a clone taken right after the send, a forged message for that key pair with a fresh counter and a correct MAC under the disclosed key is rejected. Liveness at every maximal path after a flush message each way: every key that authenticated an accepted message and whose pair is retired has been disclosed.",
   tech="explicit-state model checking of the implementation with behavioural forged-message probes on cloned states"),
 "C08": dict(cat="model_checking", ref="§3 C08",
   text="Explicit-state exploration of session histories (texts with rotation, End on either side, refresh, SMP with answer or abort, all delivery interleavings within an event budget). After every API call the log of the deterministic randomness source is classified and a reference lifetime model driven by observable progress says which draws are dead; a reflective walk of the whole conversation object graph (buffers to full capacity, big.Int words) must not contain a dead DH exponent, exchange secret or session secret, nor any text given to Send other than the most recent / still queued ones, and the buffer that received a dead DH exponent must have been zeroed.",
   tech="explicit-state model checking of the implementation with an object-graph scan against a reference secret-lifetime model"),
 "C19": dict(cat="model_checking", ref="§3 C19",
   text="Every word of length ≤ 3 over an 8-letter step alphabet (texts either way, three kinds of forged data messages, garbage, heartbeat, refresh exchange) — 584 periodic traffic patterns — is repeated n, 2n and 4n times on the real conversations from an established session; the bytes reachable from each conversation are measured per field by a reflective walk and the output of the last period is recorded. Runs are deterministic, so growth is exact: a field or the per-period output that grows by ≥ n between 2n and 4n and ≥ n/2 between n and 2n is a violation.",
   tech="exhaustive enumeration of periodic histories executed on the implementation with an exact object-graph size oracle"),
 "C03": dict(cat="model_checking", ref="§3 C03",
   text="Explicit-state exploration of lifecycle histories (Send of fresh unmistakable markers, End, query, injected error report, SMP, extra-key request, clock tick, every FIFO delivery order) under policy sets covering every combination of the four behaviour flags on the sender, with and without fragmentation. A wire monitor inspects every message returned by every call: each marker is searched raw, inside the base64 armour and across reassembled fragments, and every data message is opened with the session keys. A marker given to Send while encrypted, finished or under required encryption must never be readable; a finished-state marker must not be emitted at all; a queued marker may only leave inside data messages of a later session.",
   tech="explicit-state model checking of the implementation with a wire monitor on every emitted message"),
 "C10": dict(cat="model_checking", ref="§3 C10",
   text="(a) Explicit-state exploration of honest session histories from the query on (one or both sides asking, texts with key rotation, SMP, extra symmetric key, End, fragmentation, all delivery interleavings): every emitted message is parsed by verifref — an independent implementation written from the specification with the standard library only — and re-derived from both sides' secrets, located in the randomness logs by verification (g^d, commitment hash): commit, D-H key, SSID, c/c', m1/m1', m2/m2', the decrypted signature block and its DSA signature, data-message key ids per the specification's ratchet, next D-H key, counters, session keys with the high/low-end rule, MAC, plaintext layout, extra symmetric key, and the whole data message rebuilt byte for byte. (b) A reference peer written from the specification talks to the real conversation in both exchange roles (texts, extra-key requests, End, fragments): everything either side builds must be accepted and read exactly by the other; SSID, fingerprint and extra keys agree.",
   tech="explicit-state model checking of the implementation against an independent reference implementation stepped in lock-step (wire re-derivation and reference peer)",
   note="verifref (ref/*.go) is trusted as the statement of the specification; it shares only the Go standard library with otr3 (SMP: honest runs with equal secrets)"),
 "C20": dict(cat="model_checking", ref="§3 C20",
   text="Threads are independent scripted conversation pairs (different versions and policies; handshake, texts with rotation, OTR error, SMP, fragmentation, extra key, End). All interleavings of their API calls are executed on the real code (2 threads with full scripts, thorough also 3 threads), states matched on positions and every thread's world. After every step every package-level variable of package otr3 (list generated from the working tree) is compared bit for bit — deep, slices to full capacity — with its value after init, every message handed out earlier is re-read, and the step's observable result is compared with the same step of the script run alone. Since conversations can only meet in package-level state, 'no step modifies it' implies that steps of different conversations commute. The same scripts also run free on 16 goroutines under the race detector (sampling; corroboration only).",
   tech="exhaustive exploration of API-call interleavings of the implementation with a package-state immutability oracle; separate free-running race-detector pass",
   note="the race-detector pass is dynamic sampling and only corroborates; a write through an alias taken earlier and undone before the next function entry or named access escapes the point comparison"),
}
NA_REASON = "check not built yet (work in progress; see DESIGN.md §3 for the planned bounded exploration)"
# what was added to each check after its first version (seeded-change rounds, see DESIGN.md §3/§8)
EXTRA = {
 "C01": "Also: each degenerate D-H value followed by an honest one with the attacker finishing under the degenerate secret; a completed refresh must report a new SSID.",
 "C02": "Also: a sweep of every small key-id pair re-MACed under every disclosed key; consistent re-encodings of the authenticated part (leading-zero MPIs, adjusted length words); cleartext lines injected into sessions started by query or whitespace tag must come flagged as unencrypted.",
 "C03": "Also: explorations that start from an established session; the wire monitor reports a second message under the same AES key and counter (key-stream reuse).",
 "C04": "Also: a sweep of every fragment size 20..330 x 10 texts x 3 ratchet positions.",
 "C06": "Also: out-of-range D-H values as rejected inputs; transcripts compare the semantic content of emitted data messages.",
 "C07": "Also: start states 'both ended a moment ago' and 'one side restarted and lost the session'; a trigger that starts no exchange after the ignore window is a violation.",
 "C09": "Also: injected data messages with a wrong MAC for each of the four key pairs the receiver considers, at any moment.",
 "C10": "Also: every disclosed value must be a receiving MAC key known to the reference; refreshes; scripted tiny D-H exponents (shared secrets of 1, 191, 192 bytes); every SMP TLV verified with the specification's equations and re-derived from the sender's randomness log by verifref (ref/smp.go), including the secret's binding to both fingerprints and the SSID.",
 "C11": "Also: a further StartAuthenticate at any moment by either side (clean restarts must end like a single run, crossed ones must leave a working state machine); sessions that came about by a refresh or by a re-key after a lost disconnect.",
 "C12": "Also: a malicious prover who recomputes all proofs over every combination of Pb,Qb / Pa,Qa,Ra from {0, p, 2p, 1}; a StartAuthenticate in any state must begin a run that succeeds.",
 "C13": "Also: every ordered pair (thorough: triple) of TLV kinds in one authenticated data message; sizeable continuation pieces of a fragment train announcing 65535 pieces; a new exchange right after the call in which the randomness fault fired.",
 "C14": "Also: the arrival-sequence search from first contact (receiver not yet bound to a peer instance, pieces of a second instance continuing the stream).",
 "C15": "Also: states before the own tag is drawn and right after a fragmented message was reassembled; ill-formed carriers of valid tags (fragment with non-numeric counter, D-H Commit cut in its body) must not bind.",
 "C16": "(c) Single-version conversations in every state x input in the form of the forbidden version (foreign messages, rewritten version field, the other version's fragment format): ignored without trace. (d) Every policy without a version x every OTR-looking message kind: Receive and Send are the identity.",
 "C17": "Also: key files of 6/11/16 accounts with the first name grown over a whole entry (every token slid over every 4096-byte reader boundary) and readers that return at most c bytes per call.",
 "C19": "Four measuring points (n, 2n, 3n, 4n) with growth required in every interval; error reports in the pattern alphabet.",
 "C20": "Point granularity: a second binary built from instrumented copies of the sources compares all package-level variables at every function entry and before every statement naming one (a write undone within a call is seen), and runs two scripts under a cooperative scheduler with one preemption at every access point of either thread (thorough: every function entry, and two preemptions), each step compared with the solo run.",
}

def main():
    checks = []
    for pid in ALL:
        if pid not in CHECKS: continue
        c = CHECKS[pid]
        checks.append({
            "property_id": pid,
            "quick_cmd": "./check %s quick" % pid,
            "thorough_cmd": "./check %s thorough" % pid,
            "evidence_file": "/verif/evidence/%s.json" % pid,
            "replay_cmd_template": "./check replay {path}",
            "engine": "otrmc",
            "level_claimed": {"category": c["cat"], "text": (c["text"] + " " + EXTRA.get(pid, "")).strip(), "design_ref": c["ref"]},
            "level_note": c.get("note", TRUST),
            "technique": c["tech"],
        })
    m = {
        "version": 1,
        "setup_cmd": "./check build",
        "hooks": {
            "guard": "verif",
            "enable": "go build -tags verif -overlay .build/overlay.json (harness/*.go are overlaid into package otr3 as zz_verif_*.go; /repo is never written)",
            "baseline_off_cmd": "cd /repo && GOFLAGS=-mod=mod GOPROXY=off GOSUMDB=off GOTOOLCHAIN=local go test -vet=off -count=1 ./...",
            "source_commits": [],
            "add_only": True,
        },
        "engines": [{"name": "otrmc", "path": "/verif/harness", "serves_properties": sorted(CHECKS),
                     "kind_free_text": "hand-written explicit-state explorer whose transitions call the real otr3 API on cloned conversations; bounded exhaustive input enumerations"}],
        "checks": checks,
        "not_applicable": [{"property_id": p, "reason": NA.get(p, NA_REASON)} for p in ALL if p not in CHECKS],
        "notes": "All checks rebuild bin/otrmc from /repo's working tree through a build overlay; see DESIGN.md.",
    }
    json.dump(m, open(os.path.join(ROOT, "MANIFEST.json"), "w"), indent=1)
NA = {}
if __name__ == "__main__":
    main()
