#!/bin/bash
# tools/runall.sh [tier] — every check, one after the other, on /repo's working tree; one summary line each
cd "$(dirname "$0")/.."
tier="${1:-quick}"
rc=0
for c in C01 C02 C03 C04 C05 C06 C07 C08 C09 C10 C11 C12 C13 C14 C15 C16 C17 C18 C19 C20; do
  out=$(./check $c $tier 2>&1 | grep -v "^Warning: couldn't lock")
  echo "$out" | grep -E "^VIOLATION|ENGINE-ERROR|BUILD-ERROR|^$c $tier:" | cut -c1-260
  echo "$out" | grep -q "exit=0$" || rc=1
done
exit $rc
