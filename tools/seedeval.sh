#!/bin/bash
# tools/seedeval.sh <Cxx> [extra check ids...]
# Confirms a seeded change delivered under /tmp/seed/out/<Cxx>/ (patch.diff, demo_test.go) in a scratch
# worktree (compiles, suite green, demo fails with / passes without), then runs the check(s) against it
# by applying it to /repo and undoing it straight afterwards. Keeps it under $VROOT/seeded/<Cxx>/.
set -u
export VROOT="${VROOT:-/verif}"
id="$1"; shift
checks="$id $*"
src=${SEEDSRC:-/tmp/seed/out}/$id${SEEDSRCTAG:-}
tag="${SEEDTAG:-}"
export GOFLAGS=-mod=mod GOPROXY=off GOSUMDB=off GOTOOLCHAIN=local
[ -s "$src/patch.diff" ] && [ -s "$src/demo_test.go" ] || { echo "missing deliverables in $src"; exit 3; }
wt=/tmp/seedeval-$id$tag
git -C /repo worktree remove --force "$wt" 2>/dev/null
git -C /repo worktree add -q --detach "$wt" HEAD || exit 3
cleanup() { git -C /repo worktree remove --force "$wt" 2>/dev/null; }
trap cleanup EXIT
res() { echo "  $1"; }
cp "$src/demo_test.go" "$wt/zz_seed_demo_test.go"
( cd "$wt" && go test -vet=off -count=1 -run "TestSeeded$id" . >/tmp/seedeval-$id.base.log 2>&1 ); base=$?
git -C "$wt" apply "$src/patch.diff" || { echo "patch does not apply"; exit 3; }
( cd "$wt" && go build ./... >/dev/null 2>&1 ); build=$?
( cd "$wt" && go test -vet=off -count=1 -run "TestSeeded$id" . >/tmp/seedeval-$id.mut.log 2>&1 ); mut=$?
rm "$wt/zz_seed_demo_test.go"
( cd "$wt" && go test -vet=off -count=1 ./... >/tmp/seedeval-$id.suite.log 2>&1 ); suite=$?
res "compiles=$([ $build -eq 0 ] && echo yes || echo NO) suite_green=$([ $suite -eq 0 ] && echo yes || echo NO) demo_passes_without=$([ $base -eq 0 ] && echo yes || echo NO) demo_fails_with=$([ $mut -ne 0 ] && echo yes || echo NO)"
ok=0; [ $build -eq 0 ] && [ $suite -eq 0 ] && [ $base -eq 0 ] && [ $mut -ne 0 ] && ok=1
declare -A verdict
if [ $ok -eq 1 ]; then
  # the checks are run against the scratch worktree with the change applied (VERIF_REPO), which is what
  # "git -C /repo apply; ./check; git -C /repo checkout" does, without disturbing background runs that read /repo
  for c in $checks; do
    out=$(VERIF_REPO="$wt" $VROOT/check "$c" quick 2>&1 | grep -v "^Warning: couldn't lock")
    code=$(echo "$out" | grep -E "^$c quick:" | sed 's/.*exit=//')
    sigs=$(echo "$out" | grep -E "^  finding:" | sed 's/  finding: //' | tr '\n' ' ')
    [ -z "$code" ] && code="build-or-engine-error: $(echo "$out" | tail -2 | tr '\n' ' ')"
    verdict[$c]="exit=$code findings=[$sigs]"
    res "check $c: exit=$code $sigs"
  done
  rm -f $VROOT/replays/*.json
fi
mkdir -p $VROOT/seeded/$id$tag
cp "$src/patch.diff" "$src/demo_test.go" $VROOT/seeded/$id$tag/
[ -f "$src/README.md" ] && cp "$src/README.md" $VROOT/seeded/$id$tag/AUTHOR_NOTES.md
python3 - "$id" "$ok" "$build" "$suite" "$base" "$mut" "$tag" <<PY
import json,sys,os
id,ok,build,suite,base,mut=sys.argv[1:7]; tag=sys.argv[7] if len(sys.argv)>7 else ''
meta={"property":id,"confirmed":ok=="1","compiles":build=="0","suite_green":suite=="0","demo_passes_without_change":base=="0","demo_fails_with_change":mut!="0",
 "what_i_ran":["git worktree add (scratch), demo on clean tree, git apply patch.diff, go build ./..., go test -run TestSeeded%s, go test ./... (suite)"%id,"VERIF_REPO=<scratch worktree with patch.diff applied> ./check <id> quick"],
 "checks":{}}
for line in open('/dev/stdin') if False else []: pass
json.dump(meta,open('$VROOT/seeded/%s%s/meta.json'%(id,tag),'w'),indent=1)
PY
for c in $checks; do
  [ -n "${verdict[$c]:-}" ] && python3 - "$id$tag" "$c" "${verdict[$c]}" <<'PY'
import json,sys
id,c,v=sys.argv[1:4]
import os
p=os.environ.get('VROOT','/verif')+'/seeded/%s/meta.json'%id
m=json.load(open(p)); m['checks'][c]=v; json.dump(m,open(p,'w'),indent=1)
PY
done
cat $VROOT/seeded/$id$tag/meta.json | head -30
