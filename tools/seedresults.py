#!/usr/bin/env python3
"""Writes /verif/seeded/RESULTS.md from seeded/<id>/meta.json."""
import json, os, glob
ROOT=os.path.dirname(os.path.dirname(os.path.abspath(__file__)))
BEFORE={ # verdict of the check as it was when the change was first tried (before any strengthening)
 "C01":"missed","C02":"missed (caught by C09 and C05)","C03":"missed","C04":"missed (caught by C14)","C05":"caught","C06":"missed","C07":"missed","C08":"caught","C09":"caught","C10":"caught",
 "C11":"caught","C12":"missed","C13":"missed","C14":"caught","C15":"missed","C16":"caught","C17":"caught","C18":"caught","C19":"caught","C20":"caught by the race-detector pass only"}
STRENGTH={
 "C01":"toolbox variants 'degenerate D-H Key first, honest one second, attacker finishes with the degenerate secret'",
 "C02":"forgeries for every small key-id pair under every disclosed MAC key; a deeper ratchet position in the quick tier",
 "C03":"explorations that start from an established session (peer ends, new exchange starts, Send before it completes)",
 "C04":"sweep of every fragment size 20..330 x content set x 3 ratchet positions",
 "C06":"out-of-range D-H values (0, 1, p-1, p, p+1) as rejected inputs",
 "C07":"start state 'both sides ended a moment ago' (no clock tick since the exchange)",
 "C12":"a StartAuthenticate call in any state must begin a run that succeeds when the peer answers with the same secret",
 "C13":"a new exchange from either side right after the call in which the randomness fault fired (before any End())",
 "C15":"the reference binding is derived from the history instead of being read from the conversation",
 "C20":"the quick tier includes the whitespace-tag script, so the exhaustive part sees the write to spare capacity"}
BEFORE.update({
 "C01-2":"missed (caught by C07)","C02-2":"missed","C03-2":"caught","C04-2":"caught","C05-2":"caught","C06-2":"missed by C06 (caught by C09)","C07-2":"caught","C08-2":"caught","C09-2":"missed","C10-2":"missed (caught by C09)"})
STRENGTH.update({
 "C01-2":"C01: a completed refresh must report a new SSID; C10: refresh event, SSID re-derived at every completion",
 "C02-2":"cleartext lines injected into sessions started by query / whitespace tag (fresh, after traffic, finished, required encryption): what Receive returns must be flagged as unencrypted",
 "C06-2":"C06 now compares the semantic content of every emitted data message (key ids, counter, flag, text, TLVs); which MAC keys are disclosed stays C09's subject (it catches this change)",
 "C09-2":"injected data messages with a wrong MAC for each of the four key pairs the receiver currently considers",
 "C10-2":"every disclosed value must be the receiving MAC key of a key pair known to the reference"})
BEFORE.update({
 "C11-2":"missed (caught by C12)","C12-2":"missed","C13-2":"missed","C14-2":"caught","C15-2":"missed","C16-2":"missed","C17-2":"missed","C18-2":"caught","C19-2":"caught","C20-2":"caught by the race pass only"})
STRENGTH.update({
 "C11-2":"second StartAuthenticate at ANY time (S2r: by the initiator, S2x: by the other side) with a monitor that tells clean restarts (must end in success / failure like a single run) from restarts that crossed the peer's answer (only safety + a fresh run must work)",
 "C12-2":"malicious-prover family: every combination of Pb,Qb (SMP2) and Pa,Qa,Ra (SMP3) from {0,p,2p,1} with all proofs recomputed; this also exposed a genuine defect (v2 success without the secret with Pa=Ra=0), repaired in c1e8459",
 "C13-2":"authenticated payloads: every ordered pair (thorough: triple) of the ten TLV kinds in one data message, in every state",
 "C15-2":"receiver states before the own instance tag has been drawn (fresh-untagged)",
 "C16-2":"part (c): single-version conversations in every state x input in the form of the forbidden version (foreign exchange messages, version field rewritten, genuine next message wrapped in the other version's fragment format)",
 "C17-2":"6/11/16-account key files with the first name grown char by char over a whole entry (every token slid over every 4096-byte reader boundary) and chunked readers (short reads)",
 "C20-2":"package-state comparison now hashes everything reachable (maps, interfaces, integers/arrays behind pointers), not only byte buffers: the shared hash.Hash state is seen by the exhaustive part too"})
BEFORE.update({
 "C01-3":"caught","C02-3":"missed","C03-3":"missed by C03 (caught by C05 and C10)","C04-3":"caught","C05-3":"caught","C06-3":"caught","C07-3":"missed","C08-3":"caught","C09-3":"caught","C10-3":"missed",
 "C11-3":"missed (caught by C01)","C12-3":"caught","C13-3":"missed","C14-3":"missed (caught by C15)","C15-3":"missed (caught by C14)","C16-3":"missed","C17-3":"caught","C18-3":"caught","C19-3":"missed","C20-3":"caught (exhaustive part and race pass)"})
STRENGTH.update({
 "C02-3":"consistent re-encodings of the authenticated part (next D-H key with 1/2/7 leading zero bytes, ciphertext lengthened/shortened with its length word adjusted)",
 "C03-3":"wire monitor: two data messages of one sender under the same AES key and counter (key-stream reuse makes the text readable without any key)",
 "C07-3":"start state 'one side restarted and lost the session'; a trigger that starts no exchange although the ignore window has expired is a violation (was tolerated)",
 "C10-3":"scripted randomness: tiny D-H exponents, so that shared secrets are 1, 191 and 192 bytes long (MPI of the secret with and without leading zero bytes); this exposed a genuine crash (encrypt() on data shorter than an AES block, fix b9562a1)",
 "C11-3":"sessions that came about by a refresh (Hr) and by a re-key after one side ended and its disconnect was lost (Ha)",
 "C13-3":"state 'fragment 1 of 65535 received' and sizeable continuation pieces (100 / 8192 / 60000 bytes): allocation per input",
 "C14-3":"arrival-sequence search from first contact (receiver not yet bound to a peer instance), with pieces of a second instance that would continue the stream",
 "C15-3":"state right after a fragmented message was reassembled; ill-formed carriers of valid tags (fragment with non-numeric counter, D-H Commit cut in its body) must not bind — genuine defect found and fixed (dab2f3e)",
 "C16-3":"part (d): every policy without a version x every OTR-looking message kind (queries, error reports, encoded messages, fragments, tags): Receive and Send are the identity",
 "C19-3":"letter E (error report delivered) in the pattern alphabet, one text each way before the periodic part"})
BEFORE.update({
 "C01-4":"caught","C02-4":"missed (caught by C09)","C03-4":"missed","C04-4":"caught","C05-4":"caught","C06-4":"caught","C07-4":"caught","C08-4":"missed","C09-4":"missed","C10-4":"missed by C10 (caught by C14 and C04)",
 "C11-4":"caught","C12-4":"missed","C13-4":"missed","C14-4":"caught","C15-4":"caught","C16-4":"missed","C17-4":"missed by C17 (caught by C10)","C18-4":"missed","C19-4":"caught","C20-4":"missed (race pass too)"})
STRENGTH.update({
 "C02-4":"states after bursts of three messages in a row from either side (the moment at which keys of a still-accepted pair could be disclosed)",
 "C03-4":"marker texts that begin like an OTR query, error report or encoded message",
 "C08-4":"every buffer in which a live D-H exponent was seen is remembered (alias) and must be zeroed once the exponent is dead, not only the buffer it was drawn into; this exposed a genuine defect (End()/peer disconnect drop an exchange in progress without wiping it, fix 585b778)",
 "C09-4":"End + new exchange as an event; this exposed a genuine defect (the side that receives the disconnect never discloses the MAC keys it used, fix 088481f)",
 "C10-4":"fragment trains must be labelled 1..n of n with exactly n pieces, for every fragment size 20..340",
 "C12-4":"a StartAuthenticate that the library refuses (question too long) must not move the SMP state machine",
 "C13-4":"tagged plaintext with every 8-character blank/tab group behind the whitespace tag base (hang detection with a per-second sign of life from the workers); the seed's author also pointed at two genuine defects, both reproduced by new C13 inputs and repaired (f308040, b6c8f2e)",
 "C16-4":"pass-through receivers that are in plaintext state with a key exchange under way",
 "C17-4":"every integer a running conversation emits (g^y, the committed g^x, next D-H keys) must be minimal, with scripted tiny exponents",
 "C18-4":"texts that Send refused in the finished state must never reach the wire",
 "C20-4":"a configuration with two fragmenting threads (T2/k11), so that a buffer handed out by one conversation can be overwritten by the other"})
BEFORE.update({
 "C01-5":"missed","C02-5":"missed by C02 (caught by C18, whose property it breaks: the resent text is not the text the user gave)","C03-5":"missed","C04-5":"caught","C05-5":"missed (caught by C18)","C06-5":"caught","C07-5":"caught","C08-5":"missed","C09-5":"caught","C10-5":"missed by C10 (caught by C14 and C15)",
 "C11-5":"missed","C12-5":"missed","C13-5":"caught","C14-5":"caught","C15-5":"missed","C16-5":"missed","C17-5":"missed by C17 (caught by C20)","C18-5":"missed","C19-5":"missed","C20-5":"caught (exhaustive parts and race pass)"})
STRENGTH.update({
 "C01-5":"new exchanges with the same roles as the recorded one (its D-H Key fits the position) and a new clause: the peer D-H value kept for the data messages must be the one the reported SSID derives from",
 "C02-5":"none in C02 (the delivered message is authentic and unmodified; that the library resends a wiped text is C18's subject and C18 reports it)",
 "C03-5":"v2 configurations with required encryption; the monitor classifies a text by the policy the application configured, not by what the library holds at the time",
 "C05-5":"event: one side ends the session, the other (encryption required) leaves the finished state and writes a text that starts the next exchange",
 "C08-5":"the disconnect written padding-TLV-first (as another implementation may), and the lifetime model kills the session's secrets when the peer's disconnect is DELIVERED, whatever the conversation makes of it",
 "C10-5":"the reference peer fragments what it sends and both instance tags have the top bit set; it also writes a padding TLV first; a session the reference ended must be over at quiescence",
 "C11-5":"history Hk: after an SMP run the peer comes back with another long-term key and the session is replaced by a refresh",
 "C12-5":"a well-formed SMP message that the state does not expect must be answered with error / cheating / failure / abort (being asked for the secret again is not a refusal); a deviant message must not be swallowed silently",
 "C15-5":"a data message cut off after its header as a further ill-formed carrier of valid tags; this exposed a gap in the earlier repair (flagged data messages suppress the error), repaired in 861e6e8",
 "C16-5":"one text of every length 1..2100 through Send and Receive (buffer capacity classes)",
 "C17-5":"serialisations and fingerprints of all keys are held while the others are produced, then parsed back",
 "C18-5":"within one call's output the message that completes the key exchange must precede the data messages of the session it opens",
 "C19-5":"letter M (malformed fragment with an instance tag below 0x100) in the pattern alphabet"})
BEFORE.update({
 "C01-6":"caught","C02-6":"caught","C03-6":"missed","C04-6":"engine error (the harness's set-up panicked)","C05-6":"caught","C06-6":"missed by C06 (caught by C15)","C07-6":"missed","C08-6":"caught","C09-6":"missed","C10-6":"caught",
 "C11-6":"missed","C12-6":"caught","C13-6":"caught","C14-6":"engine error (finding did not reproduce on an isolated replay)","C15-6":"caught","C16-6":"missed","C17-6":"missed","C18-6":"caught","C19-6":"caught","C20-6":"missed"})
STRENGTH.update({
 "C03-6":"every data message is also read with the standard library's AES-CTR (the package's own decryption shares the defect), and one marker is longer than 256 cipher blocks",
 "C04-6":"an honest set-up that fails (here: no session can be established when fragments carry instance tags with the top bit set) is now a finding (honest-setup-failed) instead of a crash of the checker",
 "C06-6":"rejected inputs with BOTH instance tags foreign",
 "C07-6":"start state with the randomness source scripted to tiny D-H exponents (short g^x)",
 "C09-6":"NOT caught by C09: the change needs a peer that holds the session keys and announces an invalid next D-H key; C09 quantifies over histories of two honest parties. An experimental 'hostile next key' event was tried and withdrawn (its oracle could not be justified from the property's text in the time left)",
 "C11-6":"secret pairs that differ only in letter case, trailing blank, blank vs. empty, and invalid UTF-8, WITH a question (quick used to run the case pair without one)",
 "C14-6":"grid cases run on a copy of the sender (independent), and a new part: for every ordered pair of fragment sizes the second cut on one conversation must equal the cut of a fresh one",
 "C16-6":"after a whitespace tag that starts nothing, a query offering every version must still be answered with the policy's best version",
 "C17-6":"account-name alphabet extended by backslash, TAB, a control character, % and multi-byte UTF-8",
 "C20-6":"a pair that draws from the system's randomness source in the point-granularity invariance pass"})
BEFORE.update({k+"-7":"missed" for k in ["C02","C03","C09","C11","C12","C16","C17"]})
BEFORE["C13-7"]="not run before the strengthening (the check had no case calling Verify; one was added on reading the change)"
STRENGTH.update({
 "C02-7":"the cleartext lines of the cleartext part also arrive inside fragment trains (one piece, three pieces) of the session's format",
 "C03-7":"the wire monitor flags every data message whose keys derive from a D-H secret of 0, 1 or p-1 (own exponent or the peer's key zeroed): anyone derives those keys from the wire",
 "C09-7":"an SMP run (data messages carrying TLVs, answered from inside Receive) started at any moment is part of the alphabet (ids …/M1)",
 "C11-7":"questions of 1 … 30000 bytes (quick: 1023, 1024, 3000) besides the short one",
 "C12-7":"after ANY abort (the peer's TLV or the victim's call) a run started by the peer, to which the victim contributes nothing but the secret, must succeed (no-recovery:after-abort); the recovery probe used to start with the victim's own abort",
 "C13-7":"DSAPublicKey.Verify with every short byte string (alone and after 17 / 39 leading bytes) is among the parsers run under recover",
 "C16-7":"query strings whose friendly text contains digits and further question marks",
 "C17-7":"signature wire form: nonce scripted, digest solved for, so that s takes every byte length 1 … 20 and r (by search over 600 / 6000 nonces) falls short of 20 bytes several times; Sign's output must be the two values as 20-byte fields and verify"})
rows=[]
for d in sorted(glob.glob(os.path.join(ROOT,'seeded','C*'))):
    pid=os.path.basename(d)
    try: m=json.load(open(os.path.join(d,'meta.json')))
    except Exception: continue
    notes=''
    p=os.path.join(d,'AUTHOR_NOTES.md')
    needs=''
    if os.path.exists(p):
        txt=open(p).read()
        needs=' '.join(txt.split())[:400]
    m['needs_to_manifest']=needs
    json.dump(m,open(os.path.join(d,'meta.json'),'w'),indent=1)
    base=pid.split('-')[0]
    cks=m.get('checks',{})
    v=cks.get(base,'not run')
    others='; '.join('%s: %s'%(k,x.split(' findings')[0]) for k,x in sorted(cks.items()) if k!=base)
    if others: v += ' (also '+others+')'
    rows.append((pid,m.get('confirmed'),BEFORE.get(pid,'?'),v,STRENGTH.get(pid,'-')))
out=["# Property-breaking changes written by independent sub-agents","",
"Each sub-agent got only the text of one property and a scratch worktree of coyim/otr3 and was asked for a change that breaks the property,",
"compiles, keeps the repository's own 743 tests green, and needs something specific to manifest; plus a demonstration test.",
"Every change was confirmed in a scratch worktree (`tools/seedeval.sh`): compiles, suite green, demonstration fails with / passes without the change.",
"The checks were then run against the changed tree (quick tier).",
"`patch.diff` applies to /repo's current HEAD (`git -C /repo apply seeded/<id>/patch.diff`); where a later `fix:` commit touched the same lines the",
"change was carried over by hand (same mutation) and the author's original is kept as `patch.orig.diff`.","",
"| property | confirmed | check verdict when first tried | check verdict now (quick tier) | strengthening made because of it |","|---|---|---|---|---|"]
for r in rows:
    out.append("| %s | %s | %s | %s | %s |"%(r[0], 'yes' if r[1] else 'NO', r[2], r[3].replace('|','/')[:300], r[4]))
out += ["","`patch.diff`, `demo_test.go`, `meta.json` (and the author's notes) for each change are in the sub-directories. None of these changes is ever committed to /repo."]
open(os.path.join(ROOT,'seeded','RESULTS.md'),'w').write('\n'.join(out)+'\n')
print('\n'.join(out[8:]))
