#!/bin/bash
# tools/trymutant.sh <patch.diff> <Cxx> [tier] [--suite]
# applies a patch to /repo, (optionally) runs the repository's own tests, runs the check, reverts.
set -u
patch="$(realpath "$1")"; prop="$2"; tier="${3:-quick}"; suite="${4:-}"
export GOFLAGS=-mod=mod GOPROXY=off GOSUMDB=off GOTOOLCHAIN=local
if [ -n "$(git -C /repo status --porcelain)" ]; then echo "repo not clean" >&2; exit 3; fi
git -C /repo apply "$patch" || { echo "patch does not apply" >&2; exit 3; }
trap 'git -C /repo checkout -- . ; git -C /repo clean -fdq' EXIT
if [ "$suite" = "--suite" ]; then
  (cd /repo && go build ./... && go test -vet=off -count=1 ./... 2>&1 | tail -5)
  echo "suite exit: ${PIPESTATUS[0]}"
fi
/verif/check "$prop" "$tier" 2>&1 | grep -v "^Warning: couldn't lock" | tail -15
echo "check exit: ${PIPESTATUS[0]}"
