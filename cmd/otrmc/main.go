package main

import (
	"os"

	"github.com/coyim/otr3"
)

func main() {
	os.Exit(otr3.VerifMain(os.Args[1:]))
}
